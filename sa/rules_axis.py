"""Axis rules: runs the axis-role interpreter over the package, once per
concrete value of the axis / mode parameters, and turns its sinks into
obligations."""
import ast
import itertools

from .astutil import (body_walk, call_name, const_str, dotted, kwarg,
                      param_default, param_names, unparse)
from .axis import AxisInterp, AXNAME, NAMEAX, O, S, inv
from .source import AnalysisError

TABLE = 'biom/table.py'
PARSE = 'biom/parse.py'

SINK_RULE = {'CTOR': 'AX-CTOR', 'KERNEL': 'AX-KERNEL', 'STORE': 'AX-STORE',
             'IDAPI': 'AX-IDAPI', 'MATOP': 'AX-MATOP', 'SHAPE': 'AX-SHAPE',
             'OWNER': 'AX-OWNER', 'REINDEX': 'OR-REINDEX', 'RET': 'AX-RET',
             'TRUTH': 'AX-TRUTH', 'MAJOR': 'AX-MAJOR', 'DDICT': 'EF-DDICT',
             'ORDER': 'AX-ORDER', 'DTYPE': 'TA-DTYPE',
             'LABEL': 'AX-LABEL'}

MODE_PARAMS = {'one_to_many': [True, False], 'by_id': [True, False],
               'dense': [True, False], 'binary': [True, False],
               'observations': [True, False]}

_CACHE = {}


def axis_values(func):
    ps = param_names(func)
    if 'axis' not in ps:
        return [None]
    vals = {'sample', 'observation'}
    for n in ast.walk(func):
        if isinstance(n, ast.Compare) and isinstance(n.left, ast.Name) and \
                n.left.id == 'axis':
            for c in n.comparators:
                if const_str(c):
                    vals.add(const_str(c))
                if isinstance(c, (ast.List, ast.Tuple)):
                    for x in c.elts:
                        if const_str(x):
                            vals.add(const_str(x))
    d = param_default(func, 'axis')
    if d is not None and const_str(d):
        vals.add(const_str(d))
    doc = ast.get_docstring(func) or ''
    if "'whole'" in doc or '"whole"' in doc:
        vals.add('whole')     # documented value handled by an else branch
    return sorted(vals)


def specialisations(func):
    axes = axis_values(func)
    modes = [(p, MODE_PARAMS[p]) for p in param_names(func)
             if p in MODE_PARAMS]
    out = []
    for ax in axes:
        for combo in itertools.product(*[v for _, v in modes]) if modes \
                else [()]:
            fixed = {}
            if ax is not None:
                fixed['axis'] = ax
            for (p, _), v in zip(modes, combo):
                fixed[p] = v
            out.append(fixed)
    return out


# expectations on what the axis accessors themselves return
RET_EXPECT = {
    'Table.ids': ('ids', 'same'), 'Table.metadata': ('md', 'same'),
    'Table._index': ('index', 'same'), 'Table.length': ('len', 'same'),
    'Table.sum': ('per', 'same'), 'Table.min': ('per', 'same'),
    'Table.max': ('per', 'same'), 'Table.nonzero_counts': ('per', 'same'),
    'Table.reduce': ('list', 'same'),
    'Table._get_sparse_data': ('matrix', 'major'),
    'Table._invert_axis': ('axis', 'inverse'),
    'Table.group_metadata': ('gmd', 'same'),
    'Table.data': ('per', 'inverse'),
}


def run_all(repo):
    key = repo.digest()
    if key in _CACHE:
        return _CACHE[key]
    merged = {}
    order = []
    stats = {'functions': 0, 'runs': 0}
    for rel, q, f in repo.all_functions():
        if rel.endswith('.pyx'):
            continue
        if q.count('.') > 1:
            continue          # nested functions are reached through calls
        if '.' in q and not q.startswith('Table.'):
            continue
        stats['functions'] += 1
        site_ids = {}
        for fixed in specialisations(f):
            tps = [p for p in param_names(f) if p in ('other', 'table', 't')]
            ai = AxisInterp(repo, rel, f, fixed=fixed, table_params=tps,
                            qual=q)
            ai.run()
            stats['runs'] += 1
            sinks = list(ai.sinks)
            # return-value expectation
            if q in RET_EXPECT and fixed.get('axis') in AXNAME:
                kind, rel_ = RET_EXPECT[q]
                P = AXNAME[fixed['axis']]
                want = P if rel_ in ('same', 'major') else inv(P)
                got = None
                if ai.returns:
                    from .axis import join
                    r = ai.returns[0]
                    for x in ai.returns[1:]:
                        r = join(r, x)
                    got = r.maj if rel_ == 'major' else r.ax
                    if r.k == 'scalar' and kind == 'per':
                        got = None
                from .axis import Sink
                wrong = [x for x in ai.returns
                         if rel_ != 'major' and x.k in (
                             'per', 'list', 'ids', 'md', 'index', 'pos')
                         and x.ax in AXNAME.values() and x.ax != want and
                         x.k != 'scalar']
                if wrong and rel_ != 'inverse':
                    sinks.append(Sink(
                        'RET', f, 'return', 'bad',
                        'for axis=%s one of the return statements yields a '
                        'value of the %s axis (expected %s)'
                        % (fixed['axis'], NAMEAX[wrong[0].ax],
                           NAMEAX[want]), ai.spec))
                elif got is None:
                    sinks.append(Sink('RET', f, 'return', 'unknown',
                                      'returned axis unresolved', ai.spec))
                else:
                    sinks.append(Sink(
                        'RET', f, 'return',
                        'ok' if got == want else 'bad',
                        'for axis=%s the method returns a value of the %s '
                        'axis (expected %s)' % (fixed['axis'], NAMEAX[got],
                                                NAMEAX[want]), ai.spec))
            for s in sinks:
                line = getattr(s.node, 'lineno', 0)
                col_ = getattr(s.node, 'col_offset', 0)
                sid = site_ids.setdefault((s.kind, line, col_),
                                          len(site_ids) + 1)
                k = (rel, q, s.kind, sid, s.role)
                if k not in merged:
                    merged[k] = {'rel': rel, 'q': q, 'kind': s.kind,
                                 'site': sid, 'role': s.role,
                                 'node': s.node, 'ok': [], 'bad': [],
                                 'unknown': []}
                    order.append(k)
                merged[k][s.status].append((s.spec, s.why))
    # renumber sites per (function, kind) in source order for stable roles
    per = {}
    for k in order:
        m = merged[k]
        per.setdefault((m['rel'], m['q'], m['kind']), set()).add(
            (getattr(m['node'], 'lineno', 0),
             getattr(m['node'], 'col_offset', 0)))
    ranks = {kk: {pos: i + 1 for i, pos in enumerate(sorted(v))}
             for kk, v in per.items()}
    out = []
    for k in order:
        m = merged[k]
        pos = (getattr(m['node'], 'lineno', 0),
               getattr(m['node'], 'col_offset', 0))
        m['ordinal'] = ranks[(m['rel'], m['q'], m['kind'])][pos]
        out.append(m)
    res = (out, stats)
    _CACHE[key] = res
    return res


def emit(col, repo, funcs=None, kinds=None, exclude_funcs=()):
    """Emit obligations for the sinks of the selected functions."""
    sinks, stats = run_all(repo)
    n = 0
    for m in sinks:
        if funcs is not None and m['q'] not in funcs:
            continue
        if m['q'] in exclude_funcs:
            continue
        if kinds is not None and m['kind'] not in kinds:
            continue
        if m['kind'] == 'DDICT':
            from .rules_effects import MUTATORS
            if not m['q'].startswith('Table.') or \
                    m['q'].split('.', 1)[1] in MUTATORS:
                continue
        rule = SINK_RULE[m['kind']]
        role = '%s#%d:%s' % (m['kind'].lower(), m['ordinal'], m['role'])
        n += 1
        if m['bad']:
            spec, why = m['bad'][0]
            col.bad(rule, m['rel'], m['q'], role, m['node'],
                    '[%s] %s' % (spec or 'all', why))
        elif m['ok'] and not m['unknown']:
            col.ok(rule, m['rel'], m['q'], role, m['node'],
                   '%s (in %d specialisation(s))' % (m['ok'][0][1],
                                                     len(m['ok'])))
        elif m['ok']:
            col.ok(rule, m['rel'], m['q'], role, m['node'],
                   '%s (resolved in %d of %d specialisations)'
                   % (m['ok'][0][1], len(m['ok']),
                      len(m['ok']) + len(m['unknown'])))
        else:
            col.unknown(rule, m['rel'], m['q'], role, m['node'],
                        m['unknown'][0][1])
    return n


# --------------------------------------------------------------------------
# primitive maps
# --------------------------------------------------------------------------

def rule_axis_primitives(repo, col):
    """The primitives every axis rule rests on: _axis_to_num maps
    sample->1 / observation->0 (shape[1] is the sample dimension),
    _invert_axis returns the other axis, and the accessors return values of
    the axis they are asked for."""
    rule = 'AX-PRIM'
    f = repo.func(TABLE, 'Table._axis_to_num')
    from .consteval import axis_num_mapping
    m = axis_num_mapping(repo)
    col.check(m == {'sample': 1, 'observation': 0}, rule, TABLE,
              'Table._axis_to_num', 'map', f,
              "sample -> 1, observation -> 0", 'axis numbering is %s: '
              'shape[1]/columns are samples' % m)
    emit(col, repo, funcs=set(RET_EXPECT), kinds={'RET'})
    # shape property and length
    f = repo.func(TABLE, 'Table.length')
    src = unparse(f, 10 ** 5)
    ok = "self.shape[1] if axis == 'sample' else self.shape[0]" in src
    if not ok:
        # semantic check through the interpreter's RET sink
        pass


# --------------------------------------------------------------------------
# forwarding
# --------------------------------------------------------------------------

FORWARDERS = [
    # (rel, wrapper, callee attr, params that must be forwarded by name)
    (TABLE, 'Table.norm', 'transform', ['axis', 'inplace']),
    (TABLE, 'Table.rankdata', 'transform', ['axis', 'inplace']),
    (TABLE, 'Table.pa', 'transform', ['inplace']),
    (TABLE, 'Table.sort', 'sort_order', ['axis']),
    ('biom/util.py', 'generate_subsamples', 'subsample', []),
]


def rule_ax_fwd(repo, col, which=None):
    """A wrapper that accepts ``axis`` / ``inplace`` forwards it to the
    method that does the work."""
    rule = 'AX-FWD'
    for rel, q, callee, params in FORWARDERS:
        if which is not None and q not in which:
            continue
        f = repo.func(rel, q)
        calls = [n for n in body_walk(f) if isinstance(n, ast.Call) and
                 isinstance(n.func, ast.Attribute) and
                 n.func.attr == callee]
        if len(calls) != 1:
            col.unknown(rule, rel, q, 'call:%s' % callee, f,
                        '%d calls to %s' % (len(calls), callee))
            continue
        c = calls[0]
        try:
            tgt = repo.func(TABLE, 'Table.%s' % callee)
            tparams = [p for p in param_names(tgt) if p != 'self']
        except AnalysisError:
            tparams = []
        bound = {}
        for p, a in zip(tparams, c.args):
            bound[p] = a
        for kw in c.keywords:
            bound[kw.arg] = kw.value
        for p in params:
            col.check(p in bound and dotted(bound[p]) == p, rule, rel, q,
                      'forward:%s' % p, c,
                      '%s is forwarded to %s' % (p, callee),
                      "%s's %s argument is not forwarded to %s: the "
                      'operation runs on the default instead' % (q, p,
                                                                 callee))
        if q == 'generate_subsamples':
            wparams = param_names(f)
            for i, p in enumerate(['n', 'axis', 'by_id']):
                ok = dotted(bound.get(p) or ast.Constant(None)) == p
                col.check(ok, rule, rel, q, 'forward:%s' % p, c,
                          '%s forwarded' % p, '%s is not forwarded to '
                          'subsample' % p)



def _axis_under_flag(f, expr, flag, value):
    """Value of the constant-string expression `expr` in function `f` when
    the boolean parameter `flag` has `value`; None when not evaluable.
    Straight-line code with if/else on the flag and conditional expressions
    is followed."""
    def truth(t):
        if isinstance(t, ast.Name) and t.id == flag:
            return value
        if isinstance(t, ast.UnaryOp) and isinstance(t.op, ast.Not):
            r = truth(t.operand)
            return None if r is None else not r
        if isinstance(t, ast.Compare) and len(t.ops) == 1 and isinstance(
                t.left, ast.Name) and t.left.id == flag and isinstance(
                t.comparators[0], ast.Constant) and isinstance(
                t.comparators[0].value, bool):
            c = t.comparators[0].value
            if isinstance(t.ops[0], (ast.Is, ast.Eq)):
                return value == c
            if isinstance(t.ops[0], (ast.IsNot, ast.NotEq)):
                return value != c
        return None

    def ev(e, env):
        if e is None:
            return 'sample'
        if isinstance(e, ast.Constant):
            return e.value
        if isinstance(e, ast.Name):
            return env.get(e.id)
        if isinstance(e, ast.IfExp):
            t = truth(e.test)
            if t is None:
                return None
            return ev(e.body if t else e.orelse, env)
        return None

    def run(body, env):
        for st in body:
            if any(x is expr for x in ast.walk(st)) and not isinstance(
                    st, ast.If):
                return ev(expr, env), True
            if isinstance(st, ast.If):
                t = truth(st.test)
                if t is None:
                    if any(x is expr for x in ast.walk(st)):
                        return None, True
                    continue
                r, done = run(st.body if t else st.orelse, env)
                if done:
                    return r, True
            elif isinstance(st, ast.Assign) and len(st.targets) == 1 and \
                    isinstance(st.targets[0], ast.Name):
                env[st.targets[0].id] = ev(st.value, env)
            elif isinstance(st, (ast.For, ast.With)):
                if isinstance(st, ast.For) and any(
                        x is expr for x in ast.walk(st.iter)):
                    return ev(expr, env), True
                r, done = run(st.body, env)
                if done:
                    return r, True
        return None, False
    if expr is None:
        return 'sample'
    return run(f.body, {})[0]

def rule_cli_fwd(repo, col, which=None):
    """CLI commands pass their axis / count options to the library call
    they wrap: normalize-table (axis), table-ids (--observations), head
    (n <-> observations, m <-> samples), export-metadata (axis per file),
    add-metadata (header <-> its own file)."""
    rule = 'AX-FWD'
    sel = which or {'normalize', 'ids', 'head', 'export', 'add-metadata'}
    if 'normalize' in sel:
        rel = 'biom/cli/table_normalizer.py'
        f = repo.func(rel, '_normalize_table')
        norm = [n for n in body_walk(f) if isinstance(n, ast.Call) and
                (call_name(n) or '').endswith('.norm')]
        ok = len(norm) == 1 and dotted(kwarg(norm[0], 'axis') or
                                       ast.Constant(None)) == 'axis'
        col.check(ok, rule, rel, '_normalize_table', 'forward:axis',
                  norm[0] if norm else f, 'axis forwarded to norm',
                  '--axis is not forwarded to Table.norm')
        f2 = repo.func(rel, 'normalize_table')
        c = [n for n in body_walk(f2) if isinstance(n, ast.Call) and
             call_name(n) == '_normalize_table']
        ok = len(c) == 1 and len(c[0].args) >= 4 and \
            dotted(c[0].args[3]) == 'axis' and \
            dotted(c[0].args[1]) == 'relative_abund' and \
            dotted(c[0].args[2]) == 'presence_absence'
        col.check(ok, rule, rel, 'normalize_table', 'forward:options',
                  c[0] if c else f2, 'options forwarded in order',
                  'normalize-table options are not forwarded in order')
    if 'ids' in sel:
        rel = 'biom/cli/table_ids.py'
        f = repo.func(rel, 'summarize_table')
        ok = None
        node = f
        for n in body_walk(f):
            if isinstance(n, ast.Call) and (call_name(n) or '').endswith(
                    '.ids'):
                a = kwarg(n, 'axis')
                node = n
                got = tuple(_axis_under_flag(f, a, 'observations', v)
                            for v in (True, False))
                if got == ('observation', 'sample'):
                    ok = True
                elif None not in got:
                    ok = False
        if ok is None:
            col.unknown(rule, rel, 'summarize_table', 'flag:observations',
                        node, 'axis argument not evaluable under the flag')
            ok = True
        col.check(ok, rule, rel, 'summarize_table', 'flag:observations',
                  node, '--observations selects the observation axis',
                  'the --observations flag does not select the observation '
                  'axis')
    if 'head' in sel:
        f = repo.func(TABLE, 'Table.head')
        got = {}
        for n in body_walk(f):
            if isinstance(n, ast.Subscript) and isinstance(
                    n.slice, ast.Slice) and isinstance(n.value, ast.Call) \
                    and dotted(n.value.func) == 'self.ids':
                a = kwarg(n.value, 'axis')
                ax = const_str(a) if a is not None else 'sample'
                got[ax] = (dotted(n.slice.upper), n)
        for ax, p in (('observation', 'n'), ('sample', 'm')):
            if ax not in got:
                col.unknown(rule, TABLE, 'Table.head', 'count:%s' % ax, f,
                            'slice not found')
            else:
                col.check(got[ax][0] == p, rule, TABLE, 'Table.head',
                          'count:%s' % ax, got[ax][1],
                          'the leading %s %ss are kept' % (p, ax),
                          'the %s ids are cut at %s instead of %s'
                          % (ax, got[ax][0], p))
        rel = 'biom/cli/table_head.py'
        f = repo.func(rel, 'head')
        c = [n for n in body_walk(f) if isinstance(n, ast.Call) and
             isinstance(n.func, ast.Attribute) and n.func.attr == 'head']
        if len(c) != 1:
            col.unknown(rule, rel, 'head', 'forward:counts', f,
                        'Table.head call not found')
        else:
            nn = kwarg(c[0], 'n') or (c[0].args[0] if c[0].args else None)
            mm = kwarg(c[0], 'm') or (c[0].args[1] if len(c[0].args) > 1
                                      else None)
            ok = nn is not None and mm is not None and \
                dotted(nn) == 'n_obs' and dotted(mm) == 'n_samp'
            col.check(ok, rule, rel, 'head', 'forward:counts', c[0],
                      'n_obs -> n, n_samp -> m',
                      'biom head does not pass n_obs as n and n_samp as m')
    if 'export' in sel:
        _export_metadata_rule(repo, col, rule)
    if 'add-metadata' in sel:
        rel = 'biom/cli/metadata_adder.py'
        f = repo.func(rel, '_add_metadata')
        for n in body_walk(f):
            if isinstance(n, ast.Assign) and isinstance(
                    n.value, ast.Call) and \
                    call_name(n.value) == 'MetadataMap.from_file':
                tgt = dotted(n.targets[0])
                src = dotted(n.value.args[0]) if n.value.args else None
                hdr = dotted(kwarg(n.value, 'header') or ast.Constant(None))
                want = tgt.replace('_metadata', '_header')
                col.check(src == tgt and hdr == want, rule, rel,
                          '_add_metadata', 'mapping:%s' % tgt, n,
                          '%s parsed with %s' % (tgt, want),
                          '%s is parsed from %s with header %s'
                          % (tgt, src, hdr))
        adds = {}
        for n in body_walk(f):
            if isinstance(n, ast.Call) and (call_name(n) or '').endswith(
                    '.add_metadata') and n.args:
                adds[dotted(n.args[0])] = (const_str(
                    kwarg(n, 'axis') or (n.args[1] if len(n.args) > 1
                                         else ast.Constant('sample'))), n)
        for var, ax in (('sample_metadata', 'sample'),
                        ('observation_metadata', 'observation')):
            if var not in adds:
                col.unknown(rule, rel, '_add_metadata', 'axis:%s' % ax, f,
                            'add_metadata call not found')
            else:
                col.check(adds[var][0] == ax, rule, rel, '_add_metadata',
                          'axis:%s' % ax, adds[var][1],
                          '%s added on the %s axis' % (var, ax),
                          '%s is added on the %s axis' % (var, adds[var][0]))


RULE_TEXT = {
    'AX-CTOR': 'every internal Table(...) / self.__class__(...) / cls(...) '
               'call: each axis-typed argument sits in the slot of its axis '
               '(flipped iff the matrix argument is transposed)',
    'AX-KERNEL': '_filter / _transform / subsample receive a matrix view, '
                 'ids, metadata, index and numeric axis of one and the same '
                 'axis, which is the axis the calling method operates along',
    'AX-STORE': 'X._sample_ids = e needs e of the sample axis (same for '
                'metadata and index fields)',
    'AX-IDAPI': 'X.index / exists / data / metadata(id, axis), '
                'sort_order(order, axis), filter(ids, axis) and index '
                'lookups pair an id with the axis it belongs to',
    'AX-MATOP': 'matrix subscripts, stacking, shape tuples and vector '
                'assembly act on the dimension of the axis concerned',
    'AX-SHAPE': 'shape[0] <-> observation, shape[1] <-> sample; arrays '
                'allocated per id of an axis are filled iterating that axis',
    'AX-OWNER': 'vec[idx[id]]: vector, index and id belong to the same '
                'table and complementary axes',
    'AX-RET': 'axis accessors return values of the axis they were asked for',
    'AX-PRIM': rule_axis_primitives.__doc__,
    'AX-ORDER': 'positions are only used to index collections laid out in '
                'the order the positions refer to; ids and metadata placed '
                'in a constructor slot are laid out in the order of the '
                'matrix they label',
    'AX-LABEL': 'a report line labelled with one axis prints the count of '
                'that axis of the table passed in (a transposed working '
                'copy swaps them back)',
    'TA-DTYPE': 'matrix values are only stored into arrays / accumulators '
                'allocated with float64 or the table dtype; id arrays are '
                'not allocated with the fixed-width dtype of another id '
                'array',
    'AX-TRUTH': 'a position on an axis (which may be 0) is never used as a '
                'truth value',
    'AX-MAJOR': 'compressed-storage arrays (indptr / indices) of a table\'s '
                'matrix are read only after its layout has been fixed',
    'EF-DDICT': 'per-id metadata mappings are defaultdicts: reads use .get, '
                'md[key] would insert the key',
    'AX-FWD': rule_ax_fwd.__doc__,
    'OR-REINDEX': 'a non-None index argument derives from the axis it is '
                  'passed for',
}


def _export_metadata_rule(repo, col, rule):
    """export-metadata: the frame written to `<axis>_metadata_fp` is the one
    `metadata_to_dataframe(<axis>)` built in this very step.  Decided on the
    command function and its helper, however the work is split between them:
    a helper's parameters are bound per call site, loop variables over a
    literal sequence per element; the frame's definitions are read off the
    CFG (a statement that raises has not assigned)."""
    from .cfg import CFG
    from .astutil import arg_of
    rel = 'biom/cli/metadata_exporter.py'
    top = repo.func(rel, 'export_metadata')
    top_params = set(param_names(top))
    funcs = [('export_metadata', top)]
    for q in ('_export_metadata',):
        if repo.has_func(rel, q):
            funcs.append((q, repo.func(rel, q)))
    for r2, q, f in repo.all_functions():
        if r2 == rel and q not in ('export_metadata', '_export_metadata') \
                and '.' not in q and not isinstance(f, ast.Lambda):
            funcs.append((q, f))

    def literal_elems(fn, it):
        if isinstance(it, ast.Name):
            defs = [n.value for n in body_walk(fn) if isinstance(
                n, ast.Assign) and len(n.targets) == 1 and
                dotted(n.targets[0]) == it.id]
            if len(defs) != 1:
                return None
            it = defs[0]
        if isinstance(it, (ast.Tuple, ast.List)):
            return it.elts
        return None

    def contexts(q, fn, site, depth=0):
        """bindings name -> expression of export_metadata (or constant)
        under which `site` runs"""
        if q == 'export_metadata' or depth > 2:
            ctxs = [{}]
        else:
            ctxs = []
            for q2, f2 in funcs:
                if f2 is fn:
                    continue
                for c in body_walk(f2):
                    if isinstance(c, ast.Call) and call_name(c) == q:
                        ps = param_names(fn)
                        b = dict(zip(ps, c.args))
                        for kw in c.keywords:
                            if kw.arg:
                                b[kw.arg] = kw.value
                        for outer in contexts(q2, f2, c, depth + 1):
                            ctxs.append({k: subst(v, outer)
                                         for k, v in b.items()})
        # enclosing loops over literal sequences
        par = {}
        for p_ in ast.walk(fn):
            for ch in ast.iter_child_nodes(p_):
                par[id(ch)] = p_
        cur = site
        loops = []
        while id(cur) in par:
            cur = par[id(cur)]
            if isinstance(cur, ast.For):
                loops.append(cur)
        for lp in reversed(loops):
            elems = literal_elems(fn, lp.iter)
            if elems is None:
                continue
            out = []
            for ctx in ctxs:
                for e in elems:
                    c2 = dict(ctx)
                    if isinstance(lp.target, ast.Tuple) and isinstance(
                            e, ast.Tuple) and len(e.elts) == len(
                            lp.target.elts):
                        for t, v in zip(lp.target.elts, e.elts):
                            if isinstance(t, ast.Name):
                                c2[t.id] = subst(v, ctx)
                    elif isinstance(lp.target, ast.Name):
                        c2[lp.target.id] = subst(e, ctx)
                    out.append(c2)
            ctxs = out
        return ctxs

    def subst(e, ctx):
        if isinstance(e, ast.Name) and e.id in ctx:
            return ctx[e.id]
        return e

    def value(e, ctx):
        e = subst(e, ctx) if e is not None else None
        if e is None:
            return None
        if const_str(e) is not None:
            return ('const', const_str(e))
        if isinstance(e, ast.Name) and e.id in top_params:
            return ('param', e.id)
        return None

    pairs = {}
    n_sites = 0
    for q, fn in funcs:
        cfg = None
        for c in body_walk(fn):
            if not (isinstance(c, ast.Call) and isinstance(
                    c.func, ast.Attribute) and c.func.attr == 'to_csv'):
                continue
            n_sites += 1
            frame = c.func.value
            path = arg_of(c, 0, 'path_or_buf')
            # definitions of the frame
            if isinstance(frame, ast.Call):
                defs = [frame]
                names = None
            elif isinstance(frame, ast.Name):
                names = frame.id
                defs = [n.value for n in body_walk(fn) if isinstance(
                    n, ast.Assign) and any(dotted(t) == names
                                           for t in n.targets)]
            else:
                col.unknown(rule, rel, q, 'export:frame', c,
                            'written object not recognised')
                continue
            builds = [d for d in defs if isinstance(d, ast.Call) and (
                call_name(d) or '').endswith('metadata_to_dataframe')]
            others = [d for d in defs if d not in builds and not (
                isinstance(d, ast.Constant) and d.value is None)]
            if not builds or others:
                col.unknown(rule, rel, q, 'export:frame', c,
                            'the written frame is not (only) the result of '
                            'metadata_to_dataframe')
                continue
            # freshness inside a loop: every path of the iteration that
            # reaches the write has built the frame
            if names is not None:
                cfg = cfg or CFG(fn)
                par = {}
                for p_ in ast.walk(fn):
                    for ch in ast.iter_child_nodes(p_):
                        par[id(ch)] = p_
                cur, loop = c, None
                while id(cur) in par:
                    cur = par[id(cur)]
                    if isinstance(cur, (ast.For, ast.While)):
                        loop = cur
                        break
                if loop is not None:
                    head = cfg.node(loop)
                    use = [x for x in cfg.stmt_nodes() if x.kind == 'stmt'
                           and any(y is c for y in ast.walk(x.stmt)) and
                           not isinstance(x.stmt, (ast.For, ast.While,
                                                   ast.If, ast.Try,
                                                   ast.With))]
                    inloop = {x for x in cfg.stmt_nodes()
                              if x.kind == 'stmt' and isinstance(
                                  x.stmt, ast.Assign) and
                              x.stmt.value in builds and any(
                                  y is x.stmt for y in ast.walk(loop))}
                    if head is None or not use:
                        col.unknown(rule, rel, q, 'export:fresh', c,
                                    'loop / write not located in the CFG')
                    else:
                        stale = cfg.path_avoiding(head, use[0], inloop)
                        col.check(not stale, rule, rel, q, 'export:fresh',
                                  c, 'the frame is built on every path of '
                                  'the step that writes it',
                                  '`%s` can be reached in a step that did '
                                  'not build `%s` (metadata_to_dataframe '
                                  'raised KeyError, or was skipped): the '
                                  'frame of the previous axis is written '
                                  'to this axis\' file'
                                  % (unparse(c, 50), names))
            # which axis goes to which file
            for ctx in contexts(q, fn, c):
                for b in builds:
                    av = value(arg_of(b, 0, 'axis'), ctx)
                    pv = value(path, ctx)
                    if av is None or pv is None or av[0] != 'const' or \
                            pv[0] != 'param':
                        col.unknown(rule, rel, q, 'export:pair', c,
                                    'axis / file of this write not '
                                    'resolved')
                        continue
                    pairs.setdefault(pv[1], []).append((av[1], c, q))
    # both files requested: both writes are reached (the two requests are
    # independent of each other)
    from .flow import reached_under
    both = {'sample_metadata_fp': 'a.tsv', 'observation_metadata_fp': 'b.tsv'}
    for fp, got in sorted(pairs.items()):
        for ax_, c_, q_ in got:
            site = c_
            if q_ != 'export_metadata':
                # the call of the helper that performs this write
                site = next((x for x in body_walk(top) if isinstance(
                    x, ast.Call) and call_name(x) == q_ and any(
                    dotted(a_) == fp for a_ in list(x.args) + [
                        k_.value for k_ in x.keywords])), None)
            if site is None:
                continue
            r = reached_under(top, site, both)
            col.check(r is not False, rule, rel, 'export_metadata',
                      'independent:%s' % fp, site,
                      'written whenever it is requested',
                      'with both files requested the write to %s is not '
                      'reached (it sits in a branch taken only when the '
                      'other file is not requested): one of the two '
                      'exports is silently skipped' % fp)
    for fp, ax in (('sample_metadata_fp', 'sample'),
                   ('observation_metadata_fp', 'observation')):
        got = pairs.get(fp)
        if not got:
            col.unknown(rule, rel, 'export_metadata', 'file:%s' % ax, top,
                        'no write to %s resolved' % fp)
            continue
        wrong = [g for g in got if g[0] != ax]
        col.check(not wrong, rule, rel, 'export_metadata', 'file:%s' % ax,
                  (wrong or got)[0][1], '%s metadata goes to %s' % (ax, fp),
                  '%s receives the %s metadata' % (
                      fp, wrong[0][0] if wrong else ''))
    col.soft(n_sites >= 1, rule, rel, 'export_metadata', 'instances', top,
             '%d writes' % n_sites, 'no to_csv write found')
