"""Behaviour-preserving AST normalisation applied before the shape-reading
rules, so that they see one canonical form of equivalent code:

* calls of *expression helpers* (a module-level or nested function whose body
  is a single ``return <expr>`` over its positional parameters) are replaced
  by the expression;
* ``for`` loops over a literal sequence of literals / literal tuples (also
  ``zip`` of literal lists) whose body has no break / continue / else are
  unrolled, the targets substituted;
* ``'a/%s' % 'b'`` is folded and ``getattr(x, 'name')`` becomes ``x.name``.

The result is only read, never executed.  Positions are copied from the
original nodes so reports still point into the source."""
import ast
import copy


class _Subst(ast.NodeTransformer):
    def __init__(self, mapping):
        self.mapping = mapping

    def visit_Name(self, node):
        if isinstance(node.ctx, ast.Load) and node.id in self.mapping:
            new = copy.deepcopy(self.mapping[node.id])
            return ast.copy_location(new, node)
        return node


def _subst(node, mapping):
    return _Subst(mapping).visit(copy.deepcopy(node))


def _expr_helper(fd):
    """(param names, return expr) when ``fd`` is a one-expression helper."""
    if not isinstance(fd, ast.FunctionDef) or fd.decorator_list:
        return None
    a = fd.args
    if a.vararg or a.kwarg or a.kwonlyargs or a.defaults:
        return None
    body = [st for st in fd.body if not (isinstance(st, ast.Expr) and
                                         isinstance(st.value, ast.Constant))]
    if len(body) != 1 or not isinstance(body[0], ast.Return) or \
            body[0].value is None:
        return None
    params = [x.arg for x in a.args]
    # must not assign / close over anything but its parameters and globals
    for n in ast.walk(body[0].value):
        if isinstance(n, (ast.Lambda, ast.NamedExpr, ast.Yield,
                          ast.YieldFrom, ast.Await)):
            return None
    return params, body[0].value


class _Inline(ast.NodeTransformer):
    def __init__(self, helpers):
        self.helpers = helpers
        self.count = 0

    def visit_Call(self, node):
        self.generic_visit(node)
        if isinstance(node.func, ast.Name) and node.func.id in self.helpers \
                and not node.keywords:
            params, expr = self.helpers[node.func.id]
            if len(params) == len(node.args) and not any(
                    isinstance(x, ast.Starred) for x in node.args):
                # arguments used more than once must be side-effect free
                simple = all(isinstance(x, (ast.Name, ast.Constant,
                                            ast.Attribute, ast.Subscript))
                             for x in node.args)
                if simple:
                    self.count += 1
                    new = _subst(expr, dict(zip(params, node.args)))
                    for x in ast.walk(new):
                        ast.copy_location(x, node)
                    return new
        return node


def _literal_rows(it):
    """Rows (lists of expr nodes) of a literal iteration source."""
    def lit(e):
        return isinstance(e, (ast.Constant, ast.Name, ast.Attribute))
    if isinstance(it, (ast.Tuple, ast.List)) and it.elts:
        if all(isinstance(e, ast.Constant) for e in it.elts):
            return [[e] for e in it.elts]
        if all(isinstance(e, (ast.Tuple, ast.List)) and e.elts and
               all(lit(x) for x in e.elts) for e in it.elts) and \
                len({len(e.elts) for e in it.elts}) == 1:
            return [list(e.elts) for e in it.elts]
        return None
    if isinstance(it, ast.Call) and isinstance(it.func, ast.Name) and \
            it.func.id == 'zip' and it.args and not it.keywords:
        cols = []
        for a in it.args:
            if not (isinstance(a, (ast.List, ast.Tuple)) and a.elts and
                    all(lit(x) for x in a.elts)):
                return None
            cols.append(list(a.elts))
        if len({len(c) for c in cols}) != 1:
            return None
        return [list(r) for r in zip(*cols)]
    return None


def _targets(t):
    if isinstance(t, ast.Name):
        return [t.id]
    if isinstance(t, (ast.Tuple, ast.List)) and all(
            isinstance(x, ast.Name) for x in t.elts):
        return [x.id for x in t.elts]
    return None


class _Unroll(ast.NodeTransformer):
    def __init__(self, keep):
        self.keep = keep
        self.count = 0

    def visit_For(self, node):
        self.generic_visit(node)
        rows = _literal_rows(node.iter)
        names = _targets(node.target)
        if rows is None or names is None or node.orelse or \
                any(len(r) != len(names) for r in rows):
            return node
        if self.keep is not None and self.keep(node, rows):
            return node
        stored = set()
        for st in node.body:
            for x in ast.walk(st):
                if isinstance(x, (ast.Break, ast.Continue)):
                    return node
                if isinstance(x, ast.Name) and isinstance(
                        x.ctx, ast.Del) and x.id in names:
                    return node
                # a loop target that the body re-binds gets a fresh name
                # per iteration, initialised from the row
                if isinstance(x, ast.Name) and isinstance(
                        x.ctx, ast.Store) and x.id in names:
                    stored.add(x.id)
        out = []
        for k, r in enumerate(rows):
            m = {n_: v for n_, v in zip(names, r) if n_ not in stored}
            ren = {n_: '%s__%d' % (n_, k + 1) for n_ in stored}
            for n_, v in zip(names, r):
                if n_ in stored:
                    out.append(ast.copy_location(ast.Assign(
                        targets=[ast.Name(id=ren[n_], ctx=ast.Store())],
                        value=copy.deepcopy(v)), node))
            for st in node.body:
                st2 = _subst(st, m)
                if ren:
                    st2 = _Rename(ren).visit(st2)
                out.append(st2)
        self.count += 1
        return out


class _Fold(ast.NodeTransformer):
    def visit_BinOp(self, node):
        self.generic_visit(node)
        if isinstance(node.op, ast.Mod) and isinstance(
                node.left, ast.Constant) and isinstance(
                node.left.value, str):
            r = node.right
            vals = None
            if isinstance(r, ast.Constant):
                vals = r.value
            elif isinstance(r, ast.Tuple) and all(
                    isinstance(x, ast.Constant) for x in r.elts):
                vals = tuple(x.value for x in r.elts)
            if vals is not None:
                try:
                    return ast.copy_location(
                        ast.Constant(node.left.value % vals), node)
                except Exception:
                    return node
        return node

    def visit_BoolOp(self, node):
        self.generic_visit(node)
        # `x or <const>`  ==  `x if x else <const>` for a side-effect free x
        if isinstance(node.op, ast.Or) and len(node.values) == 2 and \
                isinstance(node.values[1], ast.Constant) and _simple(
                    node.values[0]) and not isinstance(node.values[0],
                                                       ast.Constant):
            return ast.copy_location(ast.IfExp(
                test=node.values[0], body=copy.deepcopy(node.values[0]),
                orelse=node.values[1]), node)
        return node

    def visit_Expr(self, node):
        self.generic_visit(node)
        # setattr(x, 'name', v)  ->  x.name = v
        c = node.value
        if isinstance(c, ast.Call) and isinstance(c.func, ast.Name) and \
                c.func.id == 'setattr' and len(c.args) == 3 and \
                not c.keywords and isinstance(c.args[1], ast.Constant) and \
                isinstance(c.args[1].value, str) and \
                c.args[1].value.isidentifier():
            return ast.copy_location(ast.Assign(
                targets=[ast.Attribute(value=c.args[0],
                                       attr=c.args[1].value,
                                       ctx=ast.Store())],
                value=c.args[2]), node)
        return node

    def visit_Call(self, node):
        self.generic_visit(node)
        if isinstance(node.func, ast.Name) and node.func.id == 'getattr' \
                and len(node.args) == 2 and not node.keywords and \
                isinstance(node.args[1], ast.Constant) and isinstance(
                    node.args[1].value, str) and \
                node.args[1].value.isidentifier():
            return ast.copy_location(
                ast.Attribute(value=node.args[0], attr=node.args[1].value,
                              ctx=ast.Load()), node)
        return node


def _dict_items(e):
    """[(key, value)] of a dict literal / dict(k=v) call with constant
    string keys, else None."""
    if isinstance(e, ast.Dict) and all(
            isinstance(k, ast.Constant) and isinstance(k.value, str)
            for k in e.keys):
        return [(k.value, v) for k, v in zip(e.keys, e.values)]
    if isinstance(e, ast.Call) and isinstance(e.func, ast.Name) and \
            e.func.id == 'dict' and not e.args and all(
                k.arg for k in e.keywords):
        return [(k.arg, k.value) for k in e.keywords]
    return None


def _sink_kwargs(body):
    """`if c: spec = dict(a=1)  else: spec = dict(b=2)` followed by
    `f(**spec, z=3)`  ->  the call is moved into both branches with the
    keywords written out."""
    out = []
    i = 0
    while i < len(body):
        st = body[i]
        for fld in ('body', 'orelse', 'finalbody'):
            blk = getattr(st, fld, None)
            if isinstance(blk, list) and blk and isinstance(blk[0],
                                                            ast.stmt):
                setattr(st, fld, _sink_kwargs(blk))
        nxt = body[i + 1] if i + 1 < len(body) else None
        done = False
        if isinstance(st, ast.If) and st.orelse and nxt is not None:
            calls = [c for c in ast.walk(nxt) if isinstance(c, ast.Call) and
                     any(k.arg is None and isinstance(k.value, ast.Name)
                         for k in c.keywords)]
            if len(calls) == 1 and isinstance(nxt, (ast.Expr, ast.Assign)):
                nm = [k.value.id for k in calls[0].keywords
                      if k.arg is None][0]

                def last_assign(blk):
                    if blk and isinstance(blk[-1], ast.Assign) and \
                            len(blk[-1].targets) == 1 and isinstance(
                                blk[-1].targets[0], ast.Name) and \
                            blk[-1].targets[0].id == nm:
                        return _dict_items(blk[-1].value)
                    return None
                ia, ib = last_assign(st.body), last_assign(st.orelse)
                used_later = any(
                    isinstance(x, ast.Name) and x.id == nm
                    for later in body[i + 2:] for x in ast.walk(later))
                if ia is not None and ib is not None and not used_later:
                    def specialise(items):
                        new = copy.deepcopy(nxt)
                        for c in ast.walk(new):
                            if isinstance(c, ast.Call) and any(
                                    k.arg is None and isinstance(
                                        k.value, ast.Name) and
                                    k.value.id == nm for k in c.keywords):
                                kws = []
                                for k in c.keywords:
                                    if k.arg is None and isinstance(
                                            k.value, ast.Name) and \
                                            k.value.id == nm:
                                        kws += [ast.keyword(
                                            arg=a, value=copy.deepcopy(v))
                                            for a, v in items]
                                    else:
                                        kws.append(k)
                                c.keywords = kws
                        return new
                    st.body = st.body[:-1] + [specialise(ia)]
                    st.orelse = st.orelse[:-1] + [specialise(ib)]
                    out.append(st)
                    i += 2
                    done = True
        if not done:
            out.append(st)
            i += 1
    return out


def _is_literal_seq(e):
    if not isinstance(e, (ast.Tuple, ast.List)) or not e.elts:
        return False
    return all(isinstance(x, ast.Constant) or (
        isinstance(x, (ast.Tuple, ast.List)) and x.elts and all(
            isinstance(y, (ast.Constant, ast.Name, ast.Attribute))
            for y in x.elts)) for x in e.elts)


def _propagate_literal_iterables(f, module_tree):
    """`for x in NAME:` where NAME is bound exactly once (in the function,
    at class level or at module level) to a literal tuple / list is read as
    the loop over that literal, so that it can be unrolled like one."""
    local = {}
    for a in ast.walk(f):
        if isinstance(a, ast.Assign) and len(a.targets) == 1 and \
                isinstance(a.targets[0], ast.Name):
            local.setdefault(a.targets[0].id, []).append(a.value)
        elif isinstance(a, (ast.AugAssign, ast.For, ast.comprehension)):
            t = a.target
            for x in ast.walk(t):
                if isinstance(x, ast.Name):
                    local.setdefault(x.id, []).append(None)
    outer = {}
    if module_tree is not None:
        for n in module_tree.body:
            if isinstance(n, ast.Assign) and len(n.targets) == 1 and \
                    isinstance(n.targets[0], ast.Name):
                outer.setdefault(('', n.targets[0].id), []).append(n.value)
            elif isinstance(n, ast.ClassDef):
                for m in n.body:
                    if isinstance(m, ast.Assign) and len(m.targets) == 1 \
                            and isinstance(m.targets[0], ast.Name):
                        outer.setdefault(('cls', m.targets[0].id),
                                         []).append(m.value)

    def literal_for(e):
        if isinstance(e, ast.Name):
            vals = local.get(e.id)
            if vals is None:
                vals = outer.get(('', e.id))
            if vals and len(vals) == 1 and vals[0] is not None and \
                    _is_literal_seq(vals[0]):
                return vals[0]
        if isinstance(e, ast.Attribute) and isinstance(e.value, ast.Name) \
                and (e.value.id in ('self', 'cls') or
                     e.value.id[:1].isupper()):
            vals = outer.get(('cls', e.attr))
            if vals and len(vals) == 1 and _is_literal_seq(vals[0]):
                return vals[0]
        return None
    for n in ast.walk(f):
        if isinstance(n, ast.For):
            lit = literal_for(n.iter)
            if lit is not None:
                n.iter = copy.deepcopy(lit)
            elif isinstance(n.iter, ast.Call) and isinstance(
                    n.iter.func, ast.Name) and n.iter.func.id == 'zip' \
                    and not n.iter.keywords:
                # zip(names, lengths, ...) of such names
                for i, a in enumerate(n.iter.args):
                    l2 = literal_for(a)
                    if l2 is None and isinstance(a, ast.Name):
                        # a zip column may also hold plain names /
                        # attribute reads
                        vals = local.get(a.id)
                        if vals and len(vals) == 1 and isinstance(
                                vals[0], (ast.Tuple, ast.List)) and \
                                vals[0].elts and all(isinstance(
                                    y, (ast.Constant, ast.Name,
                                        ast.Attribute))
                                    for y in vals[0].elts):
                            l2 = vals[0]
                    if l2 is not None:
                        n.iter.args[i] = copy.deepcopy(l2)
            elif isinstance(n.iter, (ast.Tuple, ast.List)):
                # a literal of pairs whose second members are such names
                for row in n.iter.elts:
                    if isinstance(row, (ast.Tuple, ast.List)):
                        for i, y in enumerate(row.elts):
                            l2 = literal_for(y)
                            if l2 is not None and False:
                                row.elts[i] = copy.deepcopy(l2)


def _inline_attr_aliases(f):
    """`a = b.c` (a plain attribute read, `a` bound once, every use of `a`
    after it, `b.c` never stored and `b` not re-bound later in the
    function) is read as if `b.c` were written at each use: local aliases
    for handles (`attrs = h5grp.attrs`, `create = grp.create_dataset`)."""
    params = {a.arg for a in f.args.args + f.args.kwonlyargs}
    stores, attr_stores = {}, set()
    for n in ast.walk(f):
        if isinstance(n, ast.Name) and isinstance(n.ctx, (ast.Store,
                                                          ast.Del)):
            stores.setdefault(n.id, []).append(n)
        if isinstance(n, ast.Attribute) and isinstance(
                n.ctx, (ast.Store, ast.Del)):
            d = _dotted(n)
            if d:
                attr_stores.add(d)
        if isinstance(n, ast.AugAssign) and isinstance(n.target,
                                                       ast.Attribute):
            d = _dotted(n.target)
            if d:
                attr_stores.add(d)
    changed = False
    for holder in ast.walk(f):
        for fld in ('body', 'orelse', 'finalbody'):
            blk = getattr(holder, fld, None)
            if not isinstance(blk, list):
                continue
            for st in list(blk):
                if not (isinstance(st, ast.Assign) and len(st.targets) == 1
                        and isinstance(st.targets[0], ast.Name) and
                        isinstance(st.value, ast.Attribute)):
                    continue
                a = st.targets[0].id
                path = _dotted(st.value)
                if path is None or a in params or len(stores.get(a, [])) != 1:
                    continue
                root = path.split('.')[0]
                if any(path == p_ or path.startswith(p_ + '.') or
                       p_.startswith(path + '.') for p_ in attr_stores):
                    continue
                if any(x.lineno > st.lineno for x in stores.get(root, [])):
                    continue
                uses = [x for x in ast.walk(f) if isinstance(x, ast.Name)
                        and x.id == a and isinstance(x.ctx, ast.Load)]
                if not uses or any(x.lineno <= st.lineno for x in uses):
                    continue
                # only handle-like uses: called, subscripted or an
                # attribute taken
                par = {}
                for p_ in ast.walk(f):
                    for ch in ast.iter_child_nodes(p_):
                        par[id(ch)] = p_
                ok = all(isinstance(par.get(id(x)), (ast.Call, ast.Subscript,
                                                     ast.Attribute)) and (
                    getattr(par[id(x)], 'func', None) is x or
                    getattr(par[id(x)], 'value', None) is x)
                    for x in uses)
                if not ok:
                    continue

                class _R(ast.NodeTransformer):
                    def visit_Name(self, node):
                        if node.id == a and isinstance(node.ctx, ast.Load):
                            return ast.copy_location(
                                copy.deepcopy(st.value), node)
                        return node
                for other in ast.walk(f):
                    for fld2 in ('body', 'orelse', 'finalbody'):
                        b2 = getattr(other, fld2, None)
                        if isinstance(b2, list):
                            for i, s2 in enumerate(b2):
                                if s2 is not st and isinstance(s2, ast.stmt):
                                    b2[i] = _R().visit(s2)
                    if isinstance(other, ast.Try):
                        for h in other.handlers:
                            h.body = [_R().visit(s2) for s2 in h.body]
                blk.remove(st)
                if not blk:
                    blk.append(ast.copy_location(ast.Pass(), st))
                changed = True
    return changed


def _dotted(e):
    parts = []
    while isinstance(e, ast.Attribute):
        parts.append(e.attr)
        e = e.value
    if isinstance(e, ast.Name):
        parts.append(e.id)
        return '.'.join(reversed(parts))
    return None


def normalize(func, module_tree=None, keep=None):
    """Normalised deep copy of ``func`` (a FunctionDef)."""
    f = copy.deepcopy(func)
    for _ in range(3):
        if not _inline_attr_aliases(f):
            break
    helpers = {}
    if module_tree is not None:
        # module-level expression helpers that are defined exactly once
        names = [n.name for n in module_tree.body
                 if isinstance(n, ast.FunctionDef)]
        for n in module_tree.body:
            h = _expr_helper(n)
            if h and n.name != func.name and names.count(n.name) == 1:
                helpers[n.name] = h
    # names re-bound locally are not the module-level helper
    for n in ast.walk(f):
        if isinstance(n, ast.FunctionDef) and n is not f:
            helpers.pop(n.name, None)
        if isinstance(n, ast.Name) and isinstance(n.ctx, ast.Store):
            helpers.pop(n.id, None)
        if isinstance(n, ast.arg):
            helpers.pop(n.arg, None)
    for _ in range(3):
        inl = _Inline(helpers)
        f = inl.visit(f)
        if not inl.count:
            break
    for _ in range(3):
        _propagate_literal_iterables(f, module_tree)
        un = _Unroll(keep)
        f = un.visit(f)
        if not un.count:
            break
    f = _Fold().visit(f)
    f.body = _sink_kwargs(f.body)
    ast.fix_missing_locations(f)
    return f


# ---------------------------------------------------------------------------
# statement-level inlining of private helpers that did not exist on the
# reviewed tree ("extract function / extract method" refactorings)
# ---------------------------------------------------------------------------
import json as _json
import os as _os

_KNOWN = None


def known_private(rel):
    global _KNOWN
    if _KNOWN is None:
        p = _os.path.join(_os.path.dirname(_os.path.abspath(__file__)),
                          'known_private.json')
        with open(p) as fh:
            _KNOWN = _json.load(fh)
    return set(_KNOWN.get(rel, ()))


_KNOWN_ALL = None


def known_functions(rel):
    """All function / method names of the reviewed tree for module `rel`
    (None when the module itself is new)."""
    global _KNOWN_ALL
    if _KNOWN_ALL is None:
        p = _os.path.join(_os.path.dirname(_os.path.abspath(__file__)),
                          'known_functions.json')
        try:
            with open(p) as fh:
                _KNOWN_ALL = _json.load(fh)
        except OSError:
            _KNOWN_ALL = {}
    v = _KNOWN_ALL.get(rel)
    return set(v) if v is not None else None


def _single_exit(fd):
    """Body without docstring when the helper is inlinable: no nested
    defs / yields / global, return only as the last top-level statement."""
    if fd.decorator_list and not all(
            isinstance(d, ast.Name) and d.id == 'staticmethod'
            for d in fd.decorator_list):
        return None
    a = fd.args
    if a.vararg or a.kwarg or a.posonlyargs:
        return None
    body = [st for st in fd.body if not (isinstance(st, ast.Expr) and
                                         isinstance(st.value, ast.Constant))]
    if not body:
        return None
    strict = True
    for i, st in enumerate(body):
        for n in ast.walk(st):
            if isinstance(n, (ast.FunctionDef, ast.AsyncFunctionDef,
                              ast.Lambda, ast.ClassDef, ast.Yield,
                              ast.YieldFrom, ast.Global, ast.Nonlocal,
                              ast.Await)):
                return None
            if isinstance(n, ast.Return) and not (
                    n is st and i == len(body) - 1):
                strict = False
    if strict:
        return body
    return _tail_returns_to_single_exit(body)


def _tail_returns_to_single_exit(body):
    """A helper whose returns all sit in tail position of a terminal
    if/elif/else chain is rewritten to assign a result variable and return
    it once (same behaviour, single exit); None when a return sits anywhere
    else."""
    n_ret = sum(1 for st in body for n in ast.walk(st)
                if isinstance(n, ast.Return))
    seen = [0]

    def has_ret(stmts):
        return any(isinstance(n, ast.Return) for st in stmts
                   for n in ast.walk(st))

    def conv(blk):
        """Block in which every path ends in a return -> the same block
        assigning `_result` instead; None when that is not its shape."""
        if not blk:
            return None
        for i, st in enumerate(blk):
            if isinstance(st, ast.Return):
                if i != len(blk) - 1:
                    return None
                seen[0] += 1
                val = st.value if st.value is not None else \
                    ast.Constant(None)
                if width[0]:
                    # every return is a tuple of the same length: one
                    # result variable per position
                    return blk[:i] + [ast.copy_location(ast.Assign(
                        targets=[ast.Name(id='_result%d' % k,
                                          ctx=ast.Store())],
                        value=v_), st) for k, v_ in enumerate(val.elts)]
                return blk[:i] + [ast.copy_location(ast.Assign(
                    targets=[ast.Name(id='_result', ctx=ast.Store())],
                    value=val), st)]
            if not has_ret([st]):
                continue
            if not isinstance(st, ast.If):
                return None
            rest = blk[i + 1:]
            b_ret, o_ret = has_ret(st.body), has_ret(st.orelse)
            if b_ret and o_ret and not rest:
                b1, b2 = conv(st.body), conv(st.orelse)
                if b1 is None or b2 is None:
                    return None
                return blk[:i] + [ast.copy_location(ast.If(
                    test=st.test, body=b1, orelse=b2), st)]
            if b_ret and not o_ret and rest:
                # if c: ...return   [else: plain]   rest...
                b1 = conv(st.body)
                b2 = conv(list(st.orelse) + rest)
                if b1 is None or b2 is None:
                    return None
                return blk[:i] + [ast.copy_location(ast.If(
                    test=st.test, body=b1, orelse=b2), st)]
            if o_ret and not b_ret and rest:
                b1 = conv(list(st.body) + rest)
                b2 = conv(st.orelse)
                if b1 is None or b2 is None:
                    return None
                return blk[:i] + [ast.copy_location(ast.If(
                    test=st.test, body=b1, orelse=b2), st)]
            return None
        return None
    body = copy.deepcopy(body)
    rets_ = [n for st in body for n in ast.walk(st)
             if isinstance(n, ast.Return)]
    width = [0]
    if rets_ and all(isinstance(r.value, ast.Tuple) and not any(
            isinstance(e, ast.Starred) for e in r.value.elts)
            for r in rets_) and len({len(r.value.elts)
                                     for r in rets_}) == 1:
        width[0] = len(rets_[0].value.elts)
    out = conv(body)
    if out is None or seen[0] != n_ret:
        return None
    if width[0]:
        out.append(ast.copy_location(ast.Return(value=ast.Tuple(
            elts=[ast.Name(id='_result%d' % k, ctx=ast.Load())
                  for k in range(width[0])], ctx=ast.Load())), body[-1]))
    else:
        out.append(ast.copy_location(ast.Return(
            value=ast.Name(id='_result', ctx=ast.Load())), body[-1]))
    for st in out:
        ast.fix_missing_locations(st)
    return out


class _Rename(ast.NodeTransformer):
    def __init__(self, mapping):
        self.mapping = mapping        # name -> expr node (Load) or new name

    def visit_Name(self, node):
        m = self.mapping.get(node.id)
        if m is None:
            return node
        if isinstance(m, str):
            return ast.copy_location(ast.Name(id=m, ctx=node.ctx), node)
        if isinstance(node.ctx, ast.Load):
            return ast.copy_location(copy.deepcopy(m), node)
        return node


def _simple(e):
    while isinstance(e, ast.Attribute):
        e = e.value
    return isinstance(e, (ast.Name, ast.Constant))


class _StmtInliner:
    def __init__(self, helpers, class_names):
        self.helpers = helpers          # key -> (FunctionDef, is_method)
        self.class_names = class_names
        self.counter = 0
        self.count = 0

    def resolve(self, call):
        """(FunctionDef, receiver expr or None) for an inlinable call."""
        f = call.func
        if isinstance(f, ast.Name) and ('', f.id) in self.helpers:
            return self.helpers[('', f.id)], None
        if isinstance(f, ast.Attribute) and _simple(f.value):
            for (cls, name), fd in self.helpers.items():
                if cls and name == f.attr:
                    static = any(isinstance(d, ast.Name) and
                                 d.id == 'staticmethod'
                                 for d in fd.decorator_list)
                    if static:
                        return fd, 'static'
                    # Class._m(x) is not handled; recv._m(...) is
                    if isinstance(f.value, ast.Name) and \
                            f.value.id in self.class_names:
                        return None, None
                    return fd, f.value
        return None, None

    def expand(self, call, fd, recv):
        """(statements, return expr) of the helper body specialised to the
        call, or None."""
        body = _single_exit(fd)
        if body is None:
            return None
        params = [a.arg for a in fd.args.args]
        defaults = dict(zip(params[len(params) - len(fd.args.defaults):],
                            fd.args.defaults))
        for a, d in zip(fd.args.kwonlyargs, fd.args.kw_defaults):
            params.append(a.arg)
            if d is not None:
                defaults[a.arg] = d
        bound = {}
        pos = list(call.args)
        if any(isinstance(x, ast.Starred) for x in pos) or any(
                k.arg is None for k in call.keywords):
            return None
        plist = list(params)
        if recv is not None and recv != 'static':
            if not plist:
                return None
            bound[plist.pop(0)] = recv
        if len(pos) > len(plist):
            return None
        for p, a in zip(plist, pos):
            bound[p] = a
        for k in call.keywords:
            if k.arg not in plist or k.arg in bound:
                return None
            bound[k.arg] = k.value
        for p in plist:
            if p not in bound:
                if p not in defaults:
                    return None
                bound[p] = defaults[p]
        self.counter += 1
        tag = '_inl%d_' % self.counter
        stored = {x.id for st in body for x in ast.walk(st)
                  if isinstance(x, ast.Name) and isinstance(
                      x.ctx, (ast.Store, ast.Del))}
        pre = []
        mapping = {}
        for p, a in bound.items():
            if p in stored or not _simple(a):
                tmp = tag + p
                pre.append(ast.Assign(
                    targets=[ast.Name(id=tmp, ctx=ast.Store())],
                    value=copy.deepcopy(a)))
                mapping[p] = tmp
            else:
                mapping[p] = a
        for nm in stored:
            if nm not in mapping:
                mapping[nm] = tag + nm
        out = []
        ret = None
        for st in body:
            st2 = _Rename(mapping).visit(copy.deepcopy(st))
            if isinstance(st2, ast.Return):
                ret = st2.value
            else:
                out.append(st2)
        stmts = pre + out
        for s_ in stmts:
            for x in ast.walk(s_):
                ast.copy_location(x, call)
        self.count += 1
        return stmts, ret

    def rewrite_block(self, stmts):
        out = []
        for st in stmts:
            for fld in ('body', 'orelse', 'finalbody'):
                blk = getattr(st, fld, None)
                if isinstance(blk, list) and blk and isinstance(
                        blk[0], ast.stmt):
                    setattr(st, fld, self.rewrite_block(blk))
            if isinstance(st, ast.Try):
                for h in st.handlers:
                    h.body = self.rewrite_block(h.body)
            call = None
            kind = None
            if isinstance(st, ast.Expr) and isinstance(st.value, ast.Call):
                call, kind = st.value, 'expr'
            elif isinstance(st, ast.Assign) and isinstance(st.value,
                                                           ast.Call):
                call, kind = st.value, 'assign'
            elif isinstance(st, ast.Return) and isinstance(st.value,
                                                           ast.Call):
                call, kind = st.value, 'return'
            if call is None and isinstance(st, ast.If):
                # `if helper(..):` / `if not helper(..):` / `if helper(..)
                # <op> simple:` - the call is the first thing the statement
                # evaluates, so its body can run just before the test
                t = st.test
                holder, attr = st, 'test'
                if isinstance(t, ast.UnaryOp) and isinstance(t.op, ast.Not):
                    holder, attr, t = t, 'operand', t.operand
                elif isinstance(t, ast.Compare) and all(
                        _simple(c_) for c_ in t.comparators):
                    holder, attr, t = t, 'left', t.left
                if isinstance(t, ast.Call):
                    fd, recv = self.resolve(t)
                    if fd is not None:
                        res = self.expand(t, fd, recv)
                        if res is not None and res[1] is not None:
                            out.extend(res[0])
                            setattr(holder, attr, res[1])
                            out.append(st)
                            continue
            if call is not None and not isinstance(
                    st, (ast.FunctionDef, ast.ClassDef)):
                fd, recv = self.resolve(call)
                if fd is not None:
                    res = self.expand(call, fd, recv)
                    if res is not None:
                        body, ret = res
                        none = ast.copy_location(ast.Constant(None), st)
                        out.extend(body)
                        if kind == 'assign' and len(st.targets) == 1 and \
                                isinstance(st.targets[0], ast.Tuple) and \
                                isinstance(ret, ast.Tuple) and len(
                                st.targets[0].elts) == len(ret.elts) and \
                                all(isinstance(r_, (ast.Name, ast.Constant))
                                    for r_ in ret.elts) and all(
                                isinstance(t_, ast.Name)
                                for t_ in st.targets[0].elts):
                            # a, b = helper(...) with `return x, y`: the
                            # helper's locals are fresh names, so the
                            # element-wise assignments are equivalent
                            for t_, r_ in zip(st.targets[0].elts, ret.elts):
                                out.append(ast.copy_location(ast.Assign(
                                    targets=[t_], value=r_), st))
                        elif kind == 'assign' and isinstance(
                                ret, ast.Name) and ret.id.endswith(
                                '_result') and ret.id.startswith('_inl') \
                                and len(st.targets) == 1 and isinstance(
                                st.targets[0], ast.Name):
                            # the helper's result variable (introduced when
                            # its returns were brought to a single exit) is
                            # only written at the end of each path: it can
                            # be the caller's target itself
                            tname = st.targets[0].id
                            for b_ in body:
                                for x in ast.walk(b_):
                                    if isinstance(x, ast.Name) and \
                                            x.id == ret.id:
                                        x.id = tname
                        elif kind == 'assign':
                            out.append(ast.copy_location(ast.Assign(
                                targets=st.targets,
                                value=ret if ret is not None else none), st))
                        elif kind == 'return':
                            out.append(ast.copy_location(ast.Return(
                                value=ret if ret is not None else none), st))
                        elif ret is not None and not isinstance(
                                ret, (ast.Name, ast.Constant,
                                      ast.Attribute)):
                            out.append(ast.copy_location(
                                ast.Expr(value=ret), st))
                        continue
            out.append(st)
        return out


def inline_new_helpers(tree, rel):
    """Inline, statement-wise, calls of private single-exit helpers that the
    reviewed tree did not have.  Returns the qualified names inlined."""
    known = known_private(rel)
    allf = known_functions(rel)
    helpers = {}
    class_names = set()

    def collect(body, cls):
        for n in body:
            if isinstance(n, ast.ClassDef):
                class_names.add(n.name)
                collect(n.body, n.name)
            elif isinstance(n, ast.FunctionDef):
                q = (cls + '.' if cls else '') + n.name
                # a helper the reviewed tree did not have: private ones by
                # the frozen private list, public ones by the frozen list of
                # all functions (a newly extracted public function or
                # method is still an extraction)
                new = (n.name.startswith('_') and q not in known) or (
                    not n.name.startswith('_') and allf is not None and
                    q not in allf)
                if new and not n.name.startswith('__') and \
                        _single_exit(n) is not None:
                    helpers[(cls, n.name)] = n
    collect(tree.body, '')
    if not helpers:
        return []
    inl = _StmtInliner(helpers, class_names)

    def apply(body):
        for n in body:
            if isinstance(n, ast.ClassDef):
                apply(n.body)
            elif isinstance(n, ast.FunctionDef):
                for _ in range(2):
                    before = inl.count
                    n.body = inl.rewrite_block(n.body)
                    if inl.count == before:
                        break
                # nested functions
                for x in ast.walk(n):
                    if isinstance(x, ast.FunctionDef) and x is not n:
                        x.body = inl.rewrite_block(x.body)
    apply(tree.body)
    # module level: `_register_defaults(profile)` as a statement
    new_body, expanded = [], False
    for st in tree.body:
        if isinstance(st, ast.Expr) and isinstance(st.value, ast.Call):
            fd, recv = inl.resolve(st.value)
            if fd is not None and recv is None:
                res = inl.expand(st.value, fd, recv)
                if res is not None:
                    new_body.extend(res[0])
                    expanded = True
                    continue
        new_body.append(st)
    if expanded:
        tree.body = new_body
        _unroll_module_level_loops(tree)
    # expression helpers (one `return <expr>`) are also inlined where they
    # are used inside expressions (conditions, arguments)
    ehelpers = {}
    for (cls, name), fd in helpers.items():
        if not cls:
            h = _expr_helper(fd)
            if h:
                ehelpers[name] = h
    if ehelpers:
        def apply_e(body):
            for i, n in enumerate(body):
                if isinstance(n, ast.ClassDef):
                    apply_e(n.body)
                elif isinstance(n, ast.FunctionDef) and \
                        n.name not in ehelpers:
                    ei = _Inline(ehelpers)
                    body[i] = ei.visit(n)
                    inl.count += ei.count
        apply_e(tree.body)
    # a helper whose every use was inlined no longer exists as a function
    # of its own: its statements are analysed where they run
    if inl.count:
        for (cls, name), fd in list(helpers.items()):
            used = False
            for n in ast.walk(tree):
                if n is fd:
                    continue
                if isinstance(n, ast.Attribute) and n.attr == name or \
                        isinstance(n, ast.Name) and n.id == name:
                    # references inside the helper itself do not count
                    if not any(x is n for x in ast.walk(fd)):
                        used = True
                        break
            if used:
                continue

            def drop(body):
                for i, x in enumerate(list(body)):
                    if x is fd:
                        del body[body.index(x)]
                        return True
                    if isinstance(x, ast.ClassDef) and drop(x.body):
                        return True
                return False
            drop(tree.body)
    ast.fix_missing_locations(tree)
    return sorted((c + '.' if c else '') + n for c, n in helpers) \
        if inl.count else []


# ---------------------------------------------------------------------------
# import aliases
# ---------------------------------------------------------------------------
_MODULE_CANON = {'numpy': 'np', 'pandas': 'pd'}


def canonical_imports(tree):
    """`from m import f as g` -> every `g` reads `f`; `import numpy` /
    `import numpy as xp` -> `np`.  Rules resolve calls by name, so an alias
    must not change what they see.  Only applied when the canonical name is
    free in the module (not bound by another import, def, class or
    assignment)."""
    bound = set()
    for n in ast.walk(tree):
        if isinstance(n, (ast.FunctionDef, ast.AsyncFunctionDef,
                          ast.ClassDef)):
            bound.add(n.name)
        elif isinstance(n, ast.Name) and isinstance(n.ctx, (ast.Store,
                                                            ast.Del)):
            bound.add(n.id)
        elif isinstance(n, ast.arg):
            bound.add(n.arg)
    imported = {}
    for n in ast.walk(tree):
        if isinstance(n, (ast.Import, ast.ImportFrom)):
            for al in n.names:
                imported.setdefault(al.asname or al.name.split('.')[0],
                                    []).append((n, al))
    rename = {}
    for n in ast.walk(tree):
        if isinstance(n, ast.ImportFrom):
            for al in n.names:
                if al.asname and al.asname != al.name and \
                        al.name not in bound and \
                        al.name not in imported and al.name != '*':
                    rename[al.asname] = al.name
        elif isinstance(n, ast.Import):
            for al in n.names:
                canon = _MODULE_CANON.get(al.name)
                cur = al.asname or al.name
                if canon and cur != canon and canon not in bound and \
                        canon not in imported and '.' not in cur:
                    rename[cur] = canon
    rename = {k: v for k, v in rename.items() if k not in bound}
    if not rename:
        return 0
    cnt = 0
    for n in ast.walk(tree):
        if isinstance(n, ast.Name) and n.id in rename:
            n.id = rename[n.id]
            cnt += 1
        elif isinstance(n, (ast.Import, ast.ImportFrom)):
            for al in n.names:
                cur = al.asname or al.name
                if cur in rename:
                    al.asname = rename[cur] if isinstance(
                        n, ast.Import) else None
    return cnt


# ---------------------------------------------------------------------------
# canonical names for role-bearing locals
# ---------------------------------------------------------------------------
def _consts(e):
    return {x.value for x in ast.walk(e) if isinstance(x, ast.Constant)
            and isinstance(x.value, str)}


def _is_lit(e):
    return isinstance(e, (ast.List, ast.Tuple, ast.Set))


def _call_is(e, name):
    from .astutil import call_name
    return isinstance(e, ast.Call) and (call_name(e) or '') == name


# (file, function) -> [(canonical name, recogniser of the defining value)]
# A local whose (single-target) assignment matches a recogniser is renamed to
# the canonical name throughout the function, so that rules can keep naming
# roles the way the reviewed tree names them.  On the reviewed tree the pass
# is the identity.
_V = 'biom/cli/table_validator.py'
CANONICAL_LOCALS = {
    (_V, 'TableValidator._validate_hdf5'): [
        ('table', lambda e: isinstance(e, ast.Subscript) and
         isinstance(e.value, ast.Name) and e.value.id == 'kwargs' and
         _consts(e.slice) == {'table'}),
        ('required_attrs', lambda e: _is_lit(e) and
         'format-url' in _consts(e)),
        ('required_groups', lambda e: _is_lit(e) and
         'observation/matrix' in _consts(e)),
        ('required_datasets', lambda e: _is_lit(e) and
         'observation/ids' in _consts(e)),
    ],
    (_V, 'TableValidator._valid_sparse_data'): [
        ('dtype', lambda e: isinstance(e, ast.Subscript) and
         isinstance(e.value, ast.Attribute) and
         e.value.attr == 'ElementTypes'),
    ],
    (_V, 'TableValidator._valid_dense_data'): [
        ('dtype', lambda e: isinstance(e, ast.Subscript) and
         isinstance(e.value, ast.Attribute) and
         e.value.attr == 'ElementTypes'),
    ],
    (_V, 'TableValidator._valid_rows'): [
        ('required_keys', lambda e: _is_lit(e) and 'id' in _consts(e) and
         'metadata' in _consts(e)),
    ],
    (_V, 'TableValidator._valid_columns'): [
        ('required_keys', lambda e: _is_lit(e) and 'id' in _consts(e) and
         'metadata' in _consts(e)),
    ],
    ('biom/table.py', 'Table.from_adjacency'): [
        ('parts', lambda e: isinstance(e, ast.Call) and isinstance(
            e.func, ast.Attribute) and e.func.attr == 'split' and
         _consts(e) == {'\t'} and isinstance(e.func.value, ast.Name)),
    ],
    ('biom/parse.py', 'parse_uc'): [
        ('data', lambda e: _call_is(e, 'defaultdict') and len(e.args) == 1
         and isinstance(e.args[0], ast.Name) and e.args[0].id == 'int'),
        ('fields', lambda e: isinstance(e, ast.Call) and isinstance(
            e.func, ast.Attribute) and e.func.attr == 'split' and
         _consts(e) == {'\t'}),
        ('line_type', lambda e: isinstance(e, ast.Subscript) and
         isinstance(e.value, ast.Name) and e.value.id == 'fields' and
         isinstance(e.slice, ast.Constant) and e.slice.value == 0),
    ],
}


def _rename_in(fn, old, new):
    for n in ast.walk(fn):
        if isinstance(n, ast.Name) and n.id == old:
            n.id = new
        elif isinstance(n, ast.ExceptHandler) and n.name == old:
            n.name = new


def canonical_locals(tree, rel):
    """Apply CANONICAL_LOCALS and the generic 'returned under key k' rule
    (`return {'valid_table': v, 'report_lines': r}` names v and r)."""
    done = 0

    def functions(body, prefix=''):
        for n in body:
            if isinstance(n, ast.ClassDef):
                yield from functions(n.body, prefix + n.name + '.')
            elif isinstance(n, (ast.FunctionDef, ast.AsyncFunctionDef)):
                yield prefix + n.name, n
    for q, fn in functions(tree.body):
        params = {a.arg for a in fn.args.args + fn.args.kwonlyargs}
        bound = {x.id for x in ast.walk(fn) if isinstance(x, ast.Name)
                 and isinstance(x.ctx, ast.Store)} | params
        pairs = []
        for canon, rec in CANONICAL_LOCALS.get((rel, q), []):
            hits = {t.id for a in ast.walk(fn) if isinstance(a, ast.Assign)
                    and len(a.targets) == 1 and isinstance(
                        a.targets[0], ast.Name) and rec(a.value)
                    for t in a.targets}
            hits -= params
            if len(hits) == 1:
                old = hits.pop()
                if old != canon and canon not in bound:
                    pairs.append((old, canon))
                    bound.add(canon)
            # later recognisers may refer to canonical names (fields[0])
            for old, new in pairs:
                _rename_in(fn, old, new)
                done += 1
            pairs = []
        # returned under a constant key
        if rel == _V:
            for r in ast.walk(fn):
                if isinstance(r, ast.Return) and isinstance(r.value,
                                                            ast.Dict):
                    for k, v in zip(r.value.keys, r.value.values):
                        if isinstance(k, ast.Constant) and isinstance(
                                k.value, str) and k.value.isidentifier() \
                                and isinstance(v, ast.Name) and \
                                v.id != k.value and v.id not in params \
                                and k.value not in bound:
                            _rename_in(fn, v.id, k.value)
                            bound.add(k.value)
                            done += 1
    return done


# ---------------------------------------------------------------------------
# flattened view for pattern-searching rules
# ---------------------------------------------------------------------------
def flat_view(module_tree, rel, fn, cls_name=None, depth=2):
    """Copy of `fn` with the bodies of the *new* private helpers it calls
    (helpers absent from known_private.json, i.e. the result of an "extract
    method" refactoring that could not be inlined statement-wise because of
    early returns) appended to its body, parameters replaced by the argument
    expressions.  Order and control flow between caller and helper are not
    represented: only for rules that search a function for constructs."""
    known = known_private(rel)
    helpers = {}
    for n in module_tree.body:
        if isinstance(n, ast.FunctionDef):
            helpers[('', n.name)] = n
        elif isinstance(n, ast.ClassDef):
            for m in n.body:
                if isinstance(m, ast.FunctionDef):
                    helpers[(n.name, m.name)] = m
    out = copy.deepcopy(fn)
    seen = {fn.name}
    work = [(out, 0)]
    extra = []
    while work:
        cur, d = work.pop()
        if d >= depth:
            continue
        for c in ast.walk(cur):
            if not isinstance(c, ast.Call):
                continue
            name = recv = None
            if isinstance(c.func, ast.Attribute) and isinstance(
                    c.func.value, ast.Name) and c.func.value.id in (
                    'self', 'cls'):
                name, recv = c.func.attr, c.func.value.id
            elif isinstance(c.func, ast.Name):
                name = c.func.id
            if not name or not name.startswith('_') or name.startswith(
                    '__') or name in seen:
                continue
            fd = None
            for (cls, nm), h in helpers.items():
                if nm == name and (bool(cls) == bool(recv)):
                    q = '%s.%s' % (cls, nm) if cls else nm
                    if q not in known:
                        fd = h
            if fd is None:
                continue
            seen.add(name)
            params = [a.arg for a in fd.args.args]
            if recv and params:
                params = params[1:]
            mapping = {}
            for p, a in zip(params, c.args):
                if isinstance(a, (ast.Name, ast.Attribute, ast.Constant)):
                    mapping[p] = a
            for k in c.keywords:
                if k.arg in params and isinstance(
                        k.value, (ast.Name, ast.Attribute, ast.Constant)):
                    mapping[k.arg] = k.value
            body = [_Rename(mapping).visit(copy.deepcopy(st))
                    for st in fd.body
                    if not (isinstance(st, ast.Expr) and
                            isinstance(st.value, ast.Constant))]
            holder = ast.Module(body=body, type_ignores=[])
            extra.extend(body)
            work.append((holder, d + 1))
    if not extra:
        return fn           # nothing to add: the function itself
    out.body = list(out.body) + extra
    ast.fix_missing_locations(out)
    return out


# ---------------------------------------------------------------------------
# canonical statement forms
# ---------------------------------------------------------------------------
_CTOR_PARAMS = ['data', 'observation_ids', 'sample_ids',
                'observation_metadata', 'sample_metadata']


_TABLE_RECEIVERS = ('self', 'table', 't', 'other', 'tab', 'result',
                    'tmp_table')
TABLE_SIGNATURES = {}


def load_table_signatures(table_src):
    """Parameter names of the methods of class Table (for reading
    positional and keyword arguments alike)."""
    TABLE_SIGNATURES.clear()
    try:
        tree = ast.parse(table_src)
    except SyntaxError:
        return
    for c in tree.body:
        if isinstance(c, ast.ClassDef) and c.name == 'Table':
            for m in c.body:
                if isinstance(m, ast.FunctionDef):
                    a = m.args
                    if a.vararg or a.posonlyargs:
                        TABLE_SIGNATURES[m.name] = None
                        continue
                    ps = [x.arg for x in a.args]
                    if ps and ps[0] in ('self', 'cls'):
                        ps = ps[1:]
                    TABLE_SIGNATURES[m.name] = ps


class _Canon(ast.NodeTransformer):
    """`x = a if c else b` is read as `if c: x = a  else: x = b`; the first
    five arguments of a Table constructor call are read positionally
    whether they are written positionally or by keyword."""

    def visit_Assign(self, node):
        self.generic_visit(node)
        if isinstance(node.value, ast.IfExp) and len(node.targets) == 1 and \
                isinstance(node.targets[0], (ast.Name, ast.Attribute)):
            t = node.targets[0]
            new = ast.If(
                test=node.value.test,
                body=[ast.copy_location(ast.Assign(
                    targets=[copy.deepcopy(t)], value=node.value.body),
                    node)],
                orelse=[ast.copy_location(ast.Assign(
                    targets=[copy.deepcopy(t)], value=node.value.orelse),
                    node)])
            if isinstance(new.test, ast.UnaryOp) and isinstance(
                    new.test.op, ast.Not):
                new = ast.If(test=new.test.operand, body=new.orelse,
                             orelse=new.body)
            return ast.copy_location(new, node)
        return node

    _NEG = {ast.Eq: ast.NotEq, ast.NotEq: ast.Eq, ast.Is: ast.IsNot,
            ast.IsNot: ast.Is, ast.In: ast.NotIn, ast.NotIn: ast.In}

    def visit_UnaryOp(self, node):
        self.generic_visit(node)
        # not (a == b) -> a != b  (==, !=, is, is not, in, not in only: the
        # ordering comparisons are not negated, NaN)
        if isinstance(node.op, ast.Not) and isinstance(
                node.operand, ast.Compare) and len(node.operand.ops) == 1 \
                and type(node.operand.ops[0]) in self._NEG and (
                    not isinstance(node.operand.ops[0], (ast.Eq, ast.NotEq))
                    or isinstance(node.operand.comparators[0], ast.Constant)
                    or isinstance(node.operand.left, ast.Constant)):
            # (== / != only against a constant: objects may define __ne__)
            c = node.operand
            return ast.copy_location(ast.Compare(
                left=c.left, ops=[self._NEG[type(c.ops[0])]()],
                comparators=c.comparators), node)
        if isinstance(node.op, ast.Not) and isinstance(
                node.operand, ast.UnaryOp) and isinstance(
                node.operand.op, ast.Not) and False:
            return node.operand.operand
        return node

    def visit_If(self, node):
        # if not c: A else: B  ->  if c: B else: A   (decided on the test as
        # written, before `not a == b` is read as `a != b`)
        if node.orelse and isinstance(node.test, ast.UnaryOp) and \
                isinstance(node.test.op, ast.Not):
            node = ast.copy_location(ast.If(
                test=node.test.operand, body=node.orelse,
                orelse=node.body), node)
        self.generic_visit(node)
        return node

    def visit_Call(self, node):
        self.generic_visit(node)
        f = node.func
        # calls of Table methods on table-named receivers are read in one
        # form: the first parameter positionally (unless it is `axis`),
        # every other argument by keyword, in signature order
        if isinstance(f, ast.Attribute) and isinstance(f.value, ast.Name) \
                and f.value.id in _TABLE_RECEIVERS and \
                f.attr in TABLE_SIGNATURES and not any(
                isinstance(a, ast.Starred) for a in node.args) and \
                not any(k.arg is None for k in node.keywords):
            params = TABLE_SIGNATURES[f.attr]
            if params and len(node.args) <= len(params):
                bound = dict(zip(params, node.args))
                extra = []
                clash = False
                for k in node.keywords:
                    if k.arg in bound:
                        clash = True
                    elif k.arg in params:
                        bound[k.arg] = k.value
                    else:
                        extra.append(k)
                if not clash:
                    first = params[0]
                    new_args = []
                    if first in bound and first != 'axis':
                        new_args = [bound[first]]
                    new_kw = [ast.keyword(arg=p_, value=bound[p_])
                              for p_ in params if p_ in bound and not (
                                  new_args and p_ == first)]
                    node.args = new_args
                    node.keywords = new_kw + extra
        is_ctor = (isinstance(f, ast.Name) and f.id in ('Table', 'cls')) or \
            (isinstance(f, ast.Attribute) and f.attr == '__class__')
        if is_ctor and node.keywords and not any(
                isinstance(a, ast.Starred) for a in node.args) and \
                not any(k.arg is None for k in node.keywords):
            kw = {k.arg: k for k in node.keywords}
            args = list(node.args)
            moved = []
            while len(args) < len(_CTOR_PARAMS) and \
                    _CTOR_PARAMS[len(args)] in kw:
                k = kw[_CTOR_PARAMS[len(args)]]
                args.append(k.value)
                moved.append(k)
            if moved:
                node.args = args
                node.keywords = [k for k in node.keywords if k not in moved]
        return node


def _inline_return_temps(tree):
    """`x = E` immediately followed by `return x` is read as `return E`."""
    for node in ast.walk(tree):
        for fld in ('body', 'orelse', 'finalbody'):
            blk = getattr(node, fld, None)
            if not (isinstance(blk, list) and blk and isinstance(
                    blk[0], ast.stmt)):
                continue
            i = 0
            while i + 1 < len(blk):
                a, b = blk[i], blk[i + 1]
                if isinstance(a, ast.Assign) and len(a.targets) == 1 and \
                        isinstance(a.targets[0], ast.Name) and isinstance(
                        b, ast.Return) and isinstance(b.value, ast.Name) \
                        and b.value.id == a.targets[0].id:
                    blk[i:i + 2] = [ast.copy_location(
                        ast.Return(value=a.value), a)]
                    continue
                i += 1
        if isinstance(node, ast.Try):
            for h in node.handlers:
                blk = h.body
                i = 0
                while i + 1 < len(blk):
                    a, b = blk[i], blk[i + 1]
                    if isinstance(a, ast.Assign) and len(a.targets) == 1 \
                            and isinstance(a.targets[0], ast.Name) and \
                            isinstance(b, ast.Return) and isinstance(
                            b.value, ast.Name) and \
                            b.value.id == a.targets[0].id:
                        blk[i:i + 2] = [ast.copy_location(
                            ast.Return(value=a.value), a)]
                        continue
                    i += 1


def _split_tuple_assigns(tree):
    """`a, b = X, Y` is read as `a = X; b = Y` when no target is read by any
    of the values (not a swap) and all targets are plain names."""
    def split(blk):
        i = 0
        while i < len(blk):
            st = blk[i]
            if isinstance(st, ast.Assign) and len(st.targets) == 1 and \
                    isinstance(st.targets[0], (ast.Tuple, ast.List)) and \
                    isinstance(st.value, (ast.Tuple, ast.List)) and \
                    len(st.targets[0].elts) == len(st.value.elts) and all(
                    isinstance(t, ast.Name) for t in st.targets[0].elts) \
                    and not any(isinstance(v, ast.Starred)
                                for v in st.value.elts):
                tn = {t.id for t in st.targets[0].elts}
                reads = {x.id for v in st.value.elts for x in ast.walk(v)
                         if isinstance(x, ast.Name)}
                if not (tn & reads) and len(tn) == len(st.targets[0].elts):
                    new = [ast.copy_location(ast.Assign(
                        targets=[t], value=v), st)
                        for t, v in zip(st.targets[0].elts, st.value.elts)]
                    blk[i:i + 1] = new
                    i += len(new)
                    continue
            i += 1
    for node in ast.walk(tree):
        for fld in ('body', 'orelse', 'finalbody'):
            blk = getattr(node, fld, None)
            if isinstance(blk, list) and blk and isinstance(blk[0],
                                                            ast.stmt):
                split(blk)
        if isinstance(node, ast.Try):
            for h in node.handlers:
                split(h.body)


def _expand_literal_generators(tree):
    """A nested generator whose body is nothing but `yield E1; yield E2;
    ...` is a literal sequence written as a function.  `for x in g(a, b):
    BODY` is read as BODY once per E_i, `t1, .., tn = g(a, b)` as the n
    assignments; the parameters are bound to fresh names first (the
    arguments are evaluated once, at the call)."""
    counter = [0]
    for f in [n for n in ast.walk(tree) if isinstance(n, ast.FunctionDef)]:
        gens = {}
        for st in f.body:
            if isinstance(st, ast.FunctionDef) and not st.decorator_list:
                body = [b for b in st.body if not (
                    isinstance(b, ast.Expr) and isinstance(b.value,
                                                           ast.Constant))]
                a = st.args
                if body and all(isinstance(b, ast.Expr) and isinstance(
                        b.value, ast.Yield) and b.value.value is not None
                        for b in body) and not (
                        a.vararg or a.kwarg or a.kwonlyargs or a.defaults):
                    gens[st.name] = ([x.arg for x in a.args],
                                     [b.value.value for b in body], st)
        if not gens:
            continue
        # every reference must be one of the two call forms
        refs = {g: 0 for g in gens}
        forms = {g: 0 for g in gens}
        for n in ast.walk(f):
            if isinstance(n, ast.Name) and n.id in gens and isinstance(
                    n.ctx, ast.Load):
                refs[n.id] += 1

        def call_of(e):
            if isinstance(e, ast.Call) and isinstance(e.func, ast.Name) \
                    and e.func.id in gens and not e.keywords and len(
                    e.args) == len(gens[e.func.id][0]) and not any(
                    isinstance(x, ast.Starred) for x in e.args):
                return e.func.id
            return None
        for n in ast.walk(f):
            if isinstance(n, ast.For) and call_of(n.iter) and not n.orelse:
                forms[call_of(n.iter)] += 1
            if isinstance(n, ast.Assign) and len(n.targets) == 1 and \
                    isinstance(n.targets[0], ast.Tuple) and call_of(
                    n.value) and len(n.targets[0].elts) == len(
                    gens[call_of(n.value)][1]):
                forms[call_of(n.value)] += 1
        usable = {g for g in gens if refs[g] == forms[g] and refs[g] > 0}
        if not usable:
            continue

        def bind(g, call, targets=None, body=None):
            counter[0] += 1
            params, exprs, _ = gens[g]
            # direct substitution when the arguments are plain names /
            # constants that nothing overwrites before they are read
            if all(isinstance(a_, (ast.Name, ast.Constant))
                   for a_ in call.args):
                argn = {p_: a_ for p_, a_ in zip(params, call.args)}
                safe = True
                if targets is not None:
                    done = set()
                    for t, e in zip(targets, exprs):
                        used = {argn[x.id].id for x in ast.walk(e)
                                if isinstance(x, ast.Name) and x.id in argn
                                and isinstance(argn[x.id], ast.Name)}
                        if used & done:
                            safe = False
                        done |= {x.id for x in ast.walk(t)
                                 if isinstance(x, ast.Name)}
                if body is not None:
                    stored = {x.id for b in body for x in ast.walk(b)
                              if isinstance(x, ast.Name) and isinstance(
                                  x.ctx, ast.Store)}
                    if stored & {a_.id for a_ in call.args
                                 if isinstance(a_, ast.Name)}:
                        safe = False
                if safe:
                    return [], [_subst(e, argn) for e in exprs]
            pre, m = [], {}
            for p_, a_ in zip(params, call.args):
                tmp = '_gen%d_%s' % (counter[0], p_)
                pre.append(ast.copy_location(ast.Assign(
                    targets=[ast.Name(id=tmp, ctx=ast.Store())],
                    value=copy.deepcopy(a_)), call))
                m[p_] = ast.Name(id=tmp, ctx=ast.Load())
            return pre, [_subst(e, m) for e in exprs]

        def rewrite(blk):
            out = []
            for st in blk:
                for fld in ('body', 'orelse', 'finalbody'):
                    b2 = getattr(st, fld, None)
                    if isinstance(b2, list) and b2 and isinstance(
                            b2[0], ast.stmt) and not isinstance(
                            st, ast.FunctionDef):
                        setattr(st, fld, rewrite(b2))
                if isinstance(st, ast.Try):
                    for h in st.handlers:
                        h.body = rewrite(h.body)
                if isinstance(st, ast.FunctionDef) and st.name in usable:
                    continue
                if isinstance(st, ast.For) and call_of(st.iter) in usable \
                        and not st.orelse and isinstance(st.target,
                                                         ast.Name) and \
                        not any(isinstance(x, (ast.Break, ast.Continue))
                                for b in st.body for x in ast.walk(b)):
                    pre, exprs = bind(call_of(st.iter), st.iter,
                                      body=st.body)
                    out.extend(pre)
                    for e in exprs:
                        for b in st.body:
                            out.append(_subst(b, {st.target.id: e}))
                    continue
                if isinstance(st, ast.Assign) and len(st.targets) == 1 and \
                        isinstance(st.targets[0], ast.Tuple) and call_of(
                        st.value) in usable:
                    pre, exprs = bind(call_of(st.value), st.value,
                                      targets=st.targets[0].elts)
                    out.extend(pre)
                    for t, e in zip(st.targets[0].elts, exprs):
                        out.append(ast.copy_location(ast.Assign(
                            targets=[t], value=e), st))
                    continue
                out.append(st)
            return out
        f.body = rewrite(f.body)
        ast.fix_missing_locations(f)


def _unroll_module_level_loops(tree):
    """A module-level `for a, b in ((..), (..)): stmt(a, b)` over a literal
    is read as the statements it performs (registrations written as a
    loop); `del a, b` of the loop targets afterwards is dropped."""
    if not isinstance(tree, ast.Module):
        return
    out, dropped = [], set()
    consts = {}
    for st in tree.body:
        if isinstance(st, ast.Assign) and len(st.targets) == 1 and \
                isinstance(st.targets[0], ast.Name):
            consts.setdefault(st.targets[0].id, []).append(st.value)
    for st in tree.body:
        if isinstance(st, ast.For) and isinstance(st.iter, ast.Name) and \
                len(consts.get(st.iter.id, [])) == 1 and _literal_rows(
                consts[st.iter.id][0]) is not None:
            st.iter = copy.deepcopy(consts[st.iter.id][0])
        if isinstance(st, ast.For):
            un = _Unroll(None)
            res = un.visit_For(st)
            if isinstance(res, list):
                out.extend(res)
                dropped |= set(_targets(st.target) or [])
                continue
        if isinstance(st, ast.Delete) and dropped and all(
                isinstance(t, ast.Name) and t.id in dropped
                for t in st.targets):
            continue
        out.append(st)
    tree.body = out


def _hoist_walrus(tree):
    """`if (x := E) <op> y:` / `if not (x := E):` / `if (x := E):` is read as
    `x = E` followed by the test on `x` (the assignment expression is the
    first thing the statement evaluates)."""
    for holder in ast.walk(tree):
        for fld in ('body', 'orelse', 'finalbody'):
            blk = getattr(holder, fld, None)
            if not isinstance(blk, list) or not blk or not isinstance(
                    blk[0], ast.stmt):
                continue
            out = []
            for st in blk:
                if isinstance(st, ast.If):
                    owner, attr, t = st, 'test', st.test
                    for _ in range(3):
                        if isinstance(t, ast.UnaryOp) and isinstance(
                                t.op, ast.Not):
                            owner, attr, t = t, 'operand', t.operand
                        elif isinstance(t, ast.Compare):
                            owner, attr, t = t, 'left', t.left
                        elif isinstance(t, ast.BoolOp):
                            owner, attr, t = t.values, 0, t.values[0]
                        elif isinstance(t, ast.Call) and t.args and \
                                _simple(t.func) and not isinstance(
                                t.args[0], ast.Starred):
                            # f(x := E, ...): the callee is a plain name,
                            # the first argument is evaluated first
                            owner, attr, t = t.args, 0, t.args[0]
                        else:
                            break
                    if isinstance(t, ast.NamedExpr) and isinstance(
                            t.target, ast.Name):
                        out.append(ast.copy_location(ast.Assign(
                            targets=[ast.Name(id=t.target.id,
                                              ctx=ast.Store())],
                            value=t.value), st))
                        repl = ast.copy_location(
                            ast.Name(id=t.target.id, ctx=ast.Load()), t)
                        if isinstance(owner, list):
                            owner[attr] = repl
                        else:
                            setattr(owner, attr, repl)
                out.append(st)
            setattr(holder, fld, out)
    ast.fix_missing_locations(tree)


def canonical_forms(tree):
    _hoist_walrus(tree)
    _unroll_module_level_loops(tree)
    _expand_literal_generators(tree)
    _split_tuple_assigns(tree)
    _inline_return_temps(tree)
    new = _Canon().visit(tree)
    ast.fix_missing_locations(new)
    return new


_KNOWN_NESTED = None


def known_nested(rel):
    global _KNOWN_NESTED
    if _KNOWN_NESTED is None:
        p = _os.path.join(_os.path.dirname(_os.path.abspath(__file__)),
                          'known_nested.json')
        try:
            with open(p) as fh:
                _KNOWN_NESTED = _json.load(fh)
        except OSError:
            _KNOWN_NESTED = {}
    return set(_KNOWN_NESTED.get(rel, ()))


def inline_new_nested_helpers(tree, rel):
    """A nested single-exit function that the reviewed tree did not have,
    called as a statement / assignment / return / `if` test inside the
    function that defines it, is read where it is called (its free names are
    looked up at call time either way).  Generators, decorated functions and
    helpers that are also passed around as values are left alone."""
    known = known_nested(rel)
    count = 0

    def visit(body, prefix):
        nonlocal count
        for n in body:
            if isinstance(n, ast.ClassDef):
                visit(n.body, prefix + n.name + '.')
            elif isinstance(n, ast.FunctionDef):
                q = prefix + n.name
                helpers = {}
                for st in n.body:
                    if isinstance(st, ast.FunctionDef) and \
                            not st.decorator_list and \
                            (q + '.' + st.name) not in known and not any(
                            isinstance(x, (ast.Yield, ast.YieldFrom,
                                           ast.Nonlocal, ast.Global))
                            for x in ast.walk(st)) and \
                            _single_exit(st) is not None:
                        # every reference is a direct call
                        refs = [x for x in ast.walk(n) if isinstance(
                            x, ast.Name) and x.id == st.name and
                            isinstance(x.ctx, ast.Load)]
                        calls = [x for x in ast.walk(n) if isinstance(
                            x, ast.Call) and isinstance(x.func, ast.Name)
                            and x.func.id == st.name]
                        inside = [x for x in refs if any(
                            y is x for y in ast.walk(st))]
                        if refs and len(refs) == len(calls) and not inside:
                            helpers[('', st.name)] = st
                if not helpers:
                    continue
                inl = _StmtInliner(helpers, set())
                for _ in range(2):
                    before = inl.count
                    n.body = inl.rewrite_block(n.body)
                    if inl.count == before:
                        break
                count += inl.count
                # drop helpers no longer referenced
                for (_, name), fd in helpers.items():
                    still = any(isinstance(x, ast.Name) and x.id == name and
                                isinstance(x.ctx, ast.Load)
                                for x in ast.walk(n))
                    if not still and fd in n.body:
                        n.body.remove(fd)
    visit(tree.body, '')
    if count:
        ast.fix_missing_locations(tree)
    return count


def simplify_pure_function(fd, module_tree=None):
    """Copy of a small side-effect free function with (1) subscripts of
    module-level literal dicts by a constant key resolved, (2) tuple
    assignments split, (3) locals that are assigned once substituted into
    their uses, (4) conditional expressions with a constant test folded.
    For functions that only read their arguments (the err tests)."""
    f = copy.deepcopy(fd)
    consts = {}
    if module_tree is not None:
        for st in module_tree.body:
            if isinstance(st, ast.Assign) and len(st.targets) == 1 and \
                    isinstance(st.targets[0], ast.Name) and isinstance(
                    st.value, ast.Dict):
                consts.setdefault(st.targets[0].id, []).append(st.value)

    class _D(ast.NodeTransformer):
        def visit_Subscript(self, node):
            self.generic_visit(node)
            if isinstance(node.value, ast.Name) and len(consts.get(
                    node.value.id, [])) == 1 and isinstance(
                    node.slice, ast.Constant):
                d = consts[node.value.id][0]
                for k, v in zip(d.keys, d.values):
                    if isinstance(k, ast.Constant) and \
                            k.value == node.slice.value:
                        return copy.deepcopy(v)
            return node

        def visit_IfExp(self, node):
            self.generic_visit(node)
            if isinstance(node.test, ast.Constant):
                return node.body if node.test.value else node.orelse
            return node
    f = _D().visit(f)
    wrapper = ast.Module(body=[f], type_ignores=[])
    _split_tuple_assigns(wrapper)
    f = wrapper.body[0]
    for _ in range(8):
        stores = {}
        for n in ast.walk(f):
            if isinstance(n, ast.Name) and isinstance(n.ctx, ast.Store):
                stores.setdefault(n.id, 0)
                stores[n.id] += 1
        target = None
        for i, st in enumerate(f.body):
            if isinstance(st, ast.Assign) and len(st.targets) == 1 and \
                    isinstance(st.targets[0], ast.Name) and \
                    stores.get(st.targets[0].id) == 1 and not any(
                    isinstance(x, (ast.Lambda, ast.NamedExpr, ast.Yield))
                    for x in ast.walk(st.value)):
                target = (i, st)
                break
        if target is None:
            break
        i, st = target
        name, val = st.targets[0].id, st.value

        class _S(ast.NodeTransformer):
            def visit_Name(self, node):
                if node.id == name and isinstance(node.ctx, ast.Load):
                    return copy.deepcopy(val)
                return node
        rest = [_S().visit(x) for x in f.body[i + 1:]]
        f.body = f.body[:i] + rest
        f = _D().visit(f)
    ast.fix_missing_locations(f)
    return f
