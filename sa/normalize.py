"""Behaviour-preserving AST normalisation applied before the shape-reading
rules, so that they see one canonical form of equivalent code:

* calls of *expression helpers* (a module-level or nested function whose body
  is a single ``return <expr>`` over its positional parameters) are replaced
  by the expression;
* ``for`` loops over a literal sequence of literals / literal tuples (also
  ``zip`` of literal lists) whose body has no break / continue / else are
  unrolled, the targets substituted;
* ``'a/%s' % 'b'`` is folded and ``getattr(x, 'name')`` becomes ``x.name``.

The result is only read, never executed.  Positions are copied from the
original nodes so reports still point into the source."""
import ast
import copy


class _Subst(ast.NodeTransformer):
    def __init__(self, mapping):
        self.mapping = mapping

    def visit_Name(self, node):
        if isinstance(node.ctx, ast.Load) and node.id in self.mapping:
            new = copy.deepcopy(self.mapping[node.id])
            return ast.copy_location(new, node)
        return node


def _subst(node, mapping):
    return _Subst(mapping).visit(copy.deepcopy(node))


def _expr_helper(fd):
    """(param names, return expr) when ``fd`` is a one-expression helper."""
    if not isinstance(fd, ast.FunctionDef) or fd.decorator_list:
        return None
    a = fd.args
    if a.vararg or a.kwarg or a.kwonlyargs or a.defaults:
        return None
    body = [st for st in fd.body if not (isinstance(st, ast.Expr) and
                                         isinstance(st.value, ast.Constant))]
    if len(body) != 1 or not isinstance(body[0], ast.Return) or \
            body[0].value is None:
        return None
    params = [x.arg for x in a.args]
    # must not assign / close over anything but its parameters and globals
    for n in ast.walk(body[0].value):
        if isinstance(n, (ast.Lambda, ast.NamedExpr, ast.Yield,
                          ast.YieldFrom, ast.Await)):
            return None
    return params, body[0].value


class _Inline(ast.NodeTransformer):
    def __init__(self, helpers):
        self.helpers = helpers
        self.count = 0

    def visit_Call(self, node):
        self.generic_visit(node)
        if isinstance(node.func, ast.Name) and node.func.id in self.helpers \
                and not node.keywords:
            params, expr = self.helpers[node.func.id]
            if len(params) == len(node.args) and not any(
                    isinstance(x, ast.Starred) for x in node.args):
                # arguments used more than once must be side-effect free
                simple = all(isinstance(x, (ast.Name, ast.Constant,
                                            ast.Attribute, ast.Subscript))
                             for x in node.args)
                if simple:
                    self.count += 1
                    new = _subst(expr, dict(zip(params, node.args)))
                    for x in ast.walk(new):
                        ast.copy_location(x, node)
                    return new
        return node


def _literal_rows(it):
    """Rows (lists of expr nodes) of a literal iteration source."""
    def lit(e):
        return isinstance(e, (ast.Constant, ast.Name, ast.Attribute))
    if isinstance(it, (ast.Tuple, ast.List)) and it.elts:
        if all(isinstance(e, ast.Constant) for e in it.elts):
            return [[e] for e in it.elts]
        if all(isinstance(e, (ast.Tuple, ast.List)) and e.elts and
               all(lit(x) for x in e.elts) for e in it.elts) and \
                len({len(e.elts) for e in it.elts}) == 1:
            return [list(e.elts) for e in it.elts]
        return None
    if isinstance(it, ast.Call) and isinstance(it.func, ast.Name) and \
            it.func.id == 'zip' and it.args and not it.keywords:
        cols = []
        for a in it.args:
            if not (isinstance(a, (ast.List, ast.Tuple)) and a.elts and
                    all(lit(x) for x in a.elts)):
                return None
            cols.append(list(a.elts))
        if len({len(c) for c in cols}) != 1:
            return None
        return [list(r) for r in zip(*cols)]
    return None


def _targets(t):
    if isinstance(t, ast.Name):
        return [t.id]
    if isinstance(t, (ast.Tuple, ast.List)) and all(
            isinstance(x, ast.Name) for x in t.elts):
        return [x.id for x in t.elts]
    return None


class _Unroll(ast.NodeTransformer):
    def __init__(self, keep):
        self.keep = keep
        self.count = 0

    def visit_For(self, node):
        self.generic_visit(node)
        rows = _literal_rows(node.iter)
        names = _targets(node.target)
        if rows is None or names is None or node.orelse or \
                any(len(r) != len(names) for r in rows):
            return node
        if self.keep is not None and self.keep(node, rows):
            return node
        for st in node.body:
            for x in ast.walk(st):
                if isinstance(x, (ast.Break, ast.Continue)):
                    return node
                # a store to a loop target inside the body defeats
                # substitution
                if isinstance(x, ast.Name) and isinstance(
                        x.ctx, (ast.Store, ast.Del)) and x.id in names:
                    return node
        out = []
        for r in rows:
            m = dict(zip(names, r))
            for st in node.body:
                out.append(_subst(st, m))
        self.count += 1
        return out


class _Fold(ast.NodeTransformer):
    def visit_BinOp(self, node):
        self.generic_visit(node)
        if isinstance(node.op, ast.Mod) and isinstance(
                node.left, ast.Constant) and isinstance(
                node.left.value, str):
            r = node.right
            vals = None
            if isinstance(r, ast.Constant):
                vals = r.value
            elif isinstance(r, ast.Tuple) and all(
                    isinstance(x, ast.Constant) for x in r.elts):
                vals = tuple(x.value for x in r.elts)
            if vals is not None:
                try:
                    return ast.copy_location(
                        ast.Constant(node.left.value % vals), node)
                except Exception:
                    return node
        return node

    def visit_Call(self, node):
        self.generic_visit(node)
        if isinstance(node.func, ast.Name) and node.func.id == 'getattr' \
                and len(node.args) == 2 and not node.keywords and \
                isinstance(node.args[1], ast.Constant) and isinstance(
                    node.args[1].value, str) and \
                node.args[1].value.isidentifier():
            return ast.copy_location(
                ast.Attribute(value=node.args[0], attr=node.args[1].value,
                              ctx=ast.Load()), node)
        return node


def normalize(func, module_tree=None, keep=None):
    """Normalised deep copy of ``func`` (a FunctionDef)."""
    f = copy.deepcopy(func)
    helpers = {}
    if module_tree is not None:
        # module-level expression helpers that are defined exactly once
        names = [n.name for n in module_tree.body
                 if isinstance(n, ast.FunctionDef)]
        for n in module_tree.body:
            h = _expr_helper(n)
            if h and n.name != func.name and names.count(n.name) == 1:
                helpers[n.name] = h
    # names re-bound locally are not the module-level helper
    for n in ast.walk(f):
        if isinstance(n, ast.FunctionDef) and n is not f:
            helpers.pop(n.name, None)
        if isinstance(n, ast.Name) and isinstance(n.ctx, ast.Store):
            helpers.pop(n.id, None)
        if isinstance(n, ast.arg):
            helpers.pop(n.arg, None)
    for _ in range(3):
        inl = _Inline(helpers)
        f = inl.visit(f)
        if not inl.count:
            break
    un = _Unroll(keep)
    f = un.visit(f)
    f = _Fold().visit(f)
    ast.fix_missing_locations(f)
    return f
