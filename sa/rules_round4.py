"""Rules added after the fourth round of independent seeded changes.

Package-wide (generic) rules first, construct-anchored necessary conditions
after them."""
import ast

from .astutil import (body_walk, call_name, const_str, dotted, kwarg,
                      local_assignments, param_names, unparse)
from .cfg import CFG

TABLE = 'biom/table.py'
PARSE = 'biom/parse.py'
ERR = 'biom/err.py'
VALID = 'biom/cli/table_validator.py'

RULE_TEXT = {
    'AG-CALLSIG': 'A positional argument that is a plain name equal to one '
                  'of the callee\'s parameter names sits in that '
                  'parameter\'s position (package-internal calls with a '
                  'resolved callee).',
    'TA-FMTSTR': 'The left operand of a %-format is a literal template, '
                 'never text assembled from data.',
    'OR-SCOPEDYIELD': 'A generator does not yield inside `with '
                      'errstate(...)`: the override would stay in force in '
                      'the consumer\'s code and be restored out of order.',
    'TA-CODEC': 'Text files are not opened with an explicit non-UTF-8 '
                'encoding.',
    'EF-CACHE': 'Table keeps no attribute holding a converted copy of its '
                'matrix: in-place kernels rewrite the matrix and a cached '
                'copy would go on answering with the old values.',
    'SB-PARALLEL': 'Lists that are handed to one constructor call and are '
                   'filled by appends in one loop are appended on the same '
                   'side of every skip (`continue`) of that loop.',
    'SB-EVERYVECTOR': 'The writers emit one record per vector: their '
                      'per-vector loops are not left early.',
    'OR-CALLBACK': 'A user callback is called exactly where the contract '
                   'says: the merge callbacks for every id, the transform '
                   'function only by the kernel.',
    'AX-RET': 'transpose never returns an un-transposed copy.',
    'AG-SEP': 'The header line and the data lines of a mapping file are '
              'split on the same separator.',
    'AG-VALID': 'Every row / column record must carry metadata whatever '
                'the table type.',
    'OR-REFUSEKIND': 'Every reaction stored in the profile has passed the '
                     'membership test on every path.',
    'AX-LABEL': 'A report line labelled Min / Max / Median / Mean prints '
                'that statistic.',
    'AG-CATEGORIES': 'Category consistency across ids is compared as sets.',
}


def _parents(fn):
    par = {}
    for p in ast.walk(fn):
        for c in ast.iter_child_nodes(p):
            par[id(c)] = p
    return par


# ---------------------------------------------------------------------------
# generic
# ---------------------------------------------------------------------------
TABLE_RECV = {'self', 'table', 'other', 't', 'tab', 'cls', 'Table',
              'tmp_table', 'result', 'new_table', 'table_obj'}


def rule_call_signature(repo, col, rels=None):
    rule = 'AG-CALLSIG'
    cls = repo.cls(TABLE, 'Table')
    meths = {n.name: n for n in cls.body if isinstance(n, ast.FunctionDef)}
    modfuncs = {}
    for rel, m in repo.modules.items():
        if '/tests/' in rel:
            continue
        for n in m.tree.body:
            if isinstance(n, ast.FunctionDef):
                modfuncs.setdefault(n.name, []).append(n)
    n_calls = 0
    for rel, q, fn in repo.all_functions():
        if '/tests/' in rel or isinstance(fn, ast.Lambda):
            continue
        if rels is not None and rel not in rels:
            continue
        for c in body_walk(fn):
            if not isinstance(c, ast.Call) or not c.args:
                continue
            ps = None
            if isinstance(c.func, ast.Attribute) and c.func.attr in meths \
                    and isinstance(c.func.value, ast.Name) and \
                    c.func.value.id in TABLE_RECV:
                callee = meths[c.func.attr]
                static = any(isinstance(d, ast.Name) and
                             d.id == 'staticmethod'
                             for d in callee.decorator_list)
                ps = [a.arg for a in callee.args.args]
                if not static:
                    ps = ps[1:]
            elif isinstance(c.func, ast.Name) and \
                    len(modfuncs.get(c.func.id, [])) == 1:
                ps = [a.arg for a in modfuncs[c.func.id][0].args.args]
            if ps is None:
                continue
            n_calls += 1
            own_filled = {a.id for i, a in enumerate(c.args)
                          if isinstance(a, ast.Name) and i < len(ps) and
                          ps[i] == a.id}
            own_filled |= {k.arg for k in c.keywords
                           if isinstance(k.value, ast.Name) and
                           k.value.id == k.arg}
            for i, a in enumerate(c.args):
                if isinstance(a, ast.Name) and a.id in ps and i < len(ps) \
                        and ps[i] != a.id and a.id not in own_filled:
                    col.bad(rule, rel, q, 'arg:%s' % a.id, c,
                            '`%s` is passed in the position of parameter '
                            '`%s` of %s (whose own `%s` is parameter #%d): '
                            'the call relies on a parameter order the '
                            'callee does not have'
                            % (a.id, ps[i], unparse(c.func, 40), a.id,
                               ps.index(a.id) + 1))
    col.ok(rule, 'biom', '<package>', 'scan', None,
           '%d resolved positional calls' % n_calls)


def rule_format_template(repo, col, rels=None):
    rule = 'TA-FMTSTR'
    n = 0
    for rel, q, fn in repo.all_functions():
        if '/tests/' in rel or isinstance(fn, ast.Lambda):
            continue
        if rels is not None and rel not in rels:
            continue
        assigns = local_assignments(fn)

        def literal(e, depth=0):
            if isinstance(e, ast.Constant) and isinstance(e.value, str):
                return True
            if isinstance(e, ast.JoinedStr):
                return False
            if isinstance(e, ast.BinOp) and isinstance(e.op, ast.Add):
                return literal(e.left, depth) and literal(e.right, depth)
            if isinstance(e, ast.Name) and e.id in assigns and depth < 3:
                vals = [v for v, _ in assigns[e.id]]
                return bool(vals) and all(v is not None and
                                          literal(v, depth + 1)
                                          for v in vals)
            return False

        def stringy(e):
            """The expression is visibly a string (has a literal part)."""
            return any(isinstance(x, ast.Constant) and isinstance(
                x.value, str) and '%' in x.value for x in ast.walk(e))
        for b in body_walk(fn):
            if isinstance(b, ast.BinOp) and isinstance(b.op, ast.Mod) and \
                    not isinstance(b.left, ast.Constant) and \
                    stringy(b.left):
                n += 1
                col.check(literal(b.left), rule, rel, q, 'template', b,
                          'the template is a literal',
                          'the %%-template `%s` is assembled from data: a '
                          '`%%` in an id or value is read as a conversion '
                          '(text is altered or formatting raises)'
                          % unparse(b.left, 60))
    col.ok(rule, 'biom', '<package>', 'scan', None,
           '%d computed templates' % n)


def rule_scoped_yield(repo, col, rels=None):
    rule = 'OR-SCOPEDYIELD'
    n = 0
    for rel, q, fn in repo.all_functions():
        if '/tests/' in rel or isinstance(fn, ast.Lambda):
            continue
        if rels is not None and rel not in rels:
            continue
        if rel == ERR and q == 'errstate':
            continue
        for w in body_walk(fn):
            if isinstance(w, ast.With) and any(
                    isinstance(it.context_expr, ast.Call) and
                    (call_name(it.context_expr) or '').split('.')[-1] ==
                    'errstate' for it in w.items):
                n += 1
                ys = [x for b in w.body for x in ast.walk(b)
                      if isinstance(x, (ast.Yield, ast.YieldFrom))]
                col.check(not ys, rule, rel, q, 'with-errstate', w,
                          'no yield inside the override',
                          'the generator yields inside `with errstate`: '
                          'the consumer\'s own code then runs under this '
                          'override, and an iterator finished later '
                          're-installs a stale profile')
    col.ok(rule, 'biom', '<package>', 'scan', None,
           '%d errstate blocks' % n)


def rule_open_encoding(repo, col, rels=None):
    rule = 'TA-CODEC'
    n = 0
    for rel, q, fn in repo.all_functions():
        if '/tests/' in rel or isinstance(fn, ast.Lambda):
            continue
        if rels is not None and rel not in rels:
            continue
        for c in body_walk(fn):
            if isinstance(c, ast.Call) and (call_name(c) or '').split(
                    '.')[-1] in ('open', 'biom_open', 'TextIOWrapper'):
                enc = kwarg(c, 'encoding')
                if enc is None:
                    continue
                n += 1
                v = const_str(enc)
                ok = v is None or v.lower().replace('-', '').replace(
                    '_', '') in ('utf8', 'utf8sig')
                col.check(ok, rule, rel, q, 'open-encoding', c,
                          'UTF-8', 'the file is opened as %r: non-ASCII ids '
                          'and values written as UTF-8 are mis-decoded'
                          % v)
    col.ok(rule, 'biom', '<package>', 'open-encoding:scan', None,
           '%d explicit encodings' % n)


BASE_FIELDS = {'_data', '_sample_ids', '_observation_ids',
               '_sample_metadata', '_observation_metadata', '_sample_index',
               '_obs_index', '_sample_group_metadata',
               '_observation_group_metadata', 'type', 'table_id',
               'create_date', 'generated_by', 'format_version'}


def rule_no_matrix_cache(repo, col):
    rule = 'EF-CACHE'
    cls = repo.cls(TABLE, 'Table')
    n = 0
    for fn in cls.body:
        if not isinstance(fn, ast.FunctionDef):
            continue
        for st in body_walk(fn):
            if isinstance(st, ast.Assign):
                for t in st.targets:
                    if isinstance(t, ast.Attribute) and \
                            dotted(t.value) == 'self' and \
                            t.attr not in BASE_FIELDS:
                        derived = any(
                            isinstance(x, ast.Attribute) and
                            x.attr in ('_data', 'matrix_data') or
                            isinstance(x, ast.Call) and isinstance(
                                x.func, ast.Attribute) and x.func.attr in (
                                'tocsr', 'tocsc', 'tocoo', 'asformat',
                                'toarray', 'todense')
                            for x in ast.walk(st.value))
                        # a name assigned from a conversion
                        if not derived:
                            ass = local_assignments(fn)
                            for x in ast.walk(st.value):
                                if isinstance(x, ast.Name) and x.id in ass:
                                    for v, _ in ass[x.id]:
                                        if v is not None and any(
                                                isinstance(y, ast.Attribute)
                                                and y.attr == '_data'
                                                for y in ast.walk(v)):
                                            derived = True
                        if derived:
                            n += 1
                            col.bad(rule, TABLE, 'Table.' + fn.name,
                                    'cache:%s' % t.attr, st,
                                    'Table.%s keeps something computed from '
                                    'the matrix: in-place filter / '
                                    'transform / subsample rewrite the '
                                    'matrix object without touching this '
                                    'attribute, which then answers with the '
                                    'old content' % t.attr)
    col.ok(rule, TABLE, '<Table>', 'scan', None,
           '%d derived-matrix attributes' % n)


def _ctor_calls(fn):
    return [n for n in body_walk(fn) if isinstance(n, ast.Call) and (
        call_name(n) in ('Table', 'cls') or
        (call_name(n) or '').endswith('.__class__'))]


def rule_parallel_lists(repo, col):
    rule = 'SB-PARALLEL'
    cls = repo.cls(TABLE, 'Table')
    n_groups = 0
    for fn in cls.body:
        if not isinstance(fn, ast.FunctionDef):
            continue
        q = 'Table.' + fn.name
        assigns = local_assignments(fn)
        par = _parents(fn)

        def sources(e, depth=0):
            """Local list names an argument is built from."""
            out = set()
            for x in ast.walk(e):
                if isinstance(x, ast.Name):
                    vals = assigns.get(x.id, [])
                    if any(isinstance(v, ast.List) and not v.elts
                           for v, _ in vals if v is not None):
                        out.add(x.id)
                    elif depth < 2:
                        for v, _ in vals:
                            if v is not None:
                                out |= sources(v, depth + 1)
            return out
        for c in _ctor_calls(fn):
            lists = set()
            for a in list(c.args) + [k.value for k in c.keywords]:
                lists |= sources(a)
            if len(lists) < 2:
                continue
            # appends per list, per loop
            per_loop = {}
            for n in body_walk(fn):
                if isinstance(n, ast.Call) and isinstance(
                        n.func, ast.Attribute) and n.func.attr == 'append' \
                        and isinstance(n.func.value, ast.Name) and \
                        n.func.value.id in lists:
                    cur, loop = n, None
                    chain = []
                    while id(cur) in par:
                        p = par[id(cur)]
                        chain.append((p, cur))
                        if isinstance(p, (ast.For, ast.While)):
                            loop = p
                            break
                        cur = p
                    if loop is None:
                        continue
                    # skip guards of this loop that precede the append at
                    # the top level of the loop body
                    top = chain[-1][1]
                    idx = loop.body.index(top) if top in loop.body else None
                    if idx is None:
                        continue
                    guards = frozenset(
                        i for i, st in enumerate(loop.body[:idx])
                        if any(isinstance(x, ast.Continue)
                               for x in ast.walk(st)))
                    per_loop.setdefault(id(loop), {}).setdefault(
                        n.func.value.id, []).append((guards, n))
            for lid, d in per_loop.items():
                if len(d) < 2:
                    continue
                n_groups += 1
                sigs = {nm: {g for g, _ in v} for nm, v in d.items()}
                ref = None
                bad = None
                for nm, s_ in sorted(sigs.items()):
                    if ref is None:
                        ref = (nm, s_)
                    elif s_ != ref[1]:
                        bad = (nm, ref[0])
                node = d[bad[0]][0][1] if bad else c
                col.check(bad is None, rule, TABLE, q,
                          'parallel:%s' % '+'.join(sorted(d)), node,
                          'the lists are appended under the same skips',
                          '`%s` and `%s` end up in one constructor call but '
                          'are appended on different sides of a `continue` '
                          'of their loop: a skipped iteration leaves one '
                          'list longer than the other' % (bad or ('', '')))
    col.ok(rule, TABLE, '<Table>', 'scan', None,
           '%d groups of parallel lists' % n_groups)


# ---------------------------------------------------------------------------
# construct-anchored
# ---------------------------------------------------------------------------
def rule_every_vector_written(repo, col):
    rule = 'SB-EVERYVECTOR'
    for q in ('Table.to_json', 'Table.delimited_self'):
        fn = repo.func(TABLE, q)
        k = 0
        for loop in [n for n in body_walk(fn) if isinstance(n, ast.For)]:
            it = unparse(loop.iter, 200)
            if not ('self.iter(' in it or 'self.iter_data(' in it or
                    'self._iter_obs' in it or 'self._iter_samp' in it):
                continue
            k += 1
            early = [x for b in loop.body for x in ast.walk(b)
                     if isinstance(x, (ast.Continue, ast.Break))
                     and not _inside_inner_loop(loop, x)]
            col.check(not early, rule, TABLE, q, 'vector-loop#%d' % k,
                      early[0] if early else loop,
                      'every vector reaches the end of the loop body',
                      'the per-vector loop of the writer is left early for '
                      'some vectors: their record (row / column entry, '
                      'line) is missing while shape and the other records '
                      'still count them')
        col.soft(k >= 1, rule, TABLE, q, 'instances', fn,
                 '%d per-vector loops' % k, 'no per-vector loop found')


def _inside_inner_loop(outer, node):
    for n in ast.walk(outer):
        if n is not outer and isinstance(n, (ast.For, ast.While)) and any(
                x is node for x in ast.walk(n)):
            return True
    return False


def rule_aligned_recovery(repo, col):
    """The flat-string recovery of the list formatter keeps one entry per
    id."""
    rule = 'SB-EVERYVECTOR'
    fn = repo.func(TABLE, 'vlen_list_of_str_formatter')
    k = 0
    for loop in [n for n in ast.walk(fn) if isinstance(n, ast.For)]:
        if dotted(loop.iter) != 'md':
            continue
        appends = [x for b in loop.body for x in ast.walk(b)
                   if isinstance(x, ast.Call) and isinstance(
                       x.func, ast.Attribute) and x.func.attr == 'append']
        if not appends:
            continue
        k += 1
        early = [x for b in loop.body for x in ast.walk(b)
                 if isinstance(x, (ast.Continue, ast.Break))]
        names = {dotted(a.func.value) for a in appends}
        if names <= {'iterable_checks', 'lengths'}:
            continue            # the classification pass, not a rebuild
        col.check(not early, rule, TABLE, 'vlen_list_of_str_formatter',
                  'per-id-rebuild#%d' % k, early[0] if early else loop,
                  'the rebuilt metadata keeps one entry per id',
                  'an id is skipped while the per-id list is rebuilt: the '
                  'list gets shorter than the ids and every later entry is '
                  'attached to the wrong id')


def rule_callbacks(repo, col):
    rule = 'OR-CALLBACK'
    fn = repo.func(TABLE, 'Table.merge')
    par = _parents(fn)
    k = 0
    for n in body_walk(fn):
        if isinstance(n, ast.Call) and isinstance(n.func, ast.Name) and \
                n.func.id in ('sample_metadata_f', 'observation_metadata_f'):
            k += 1
            cur, cond = n, None
            while id(cur) in par:
                p = par[id(cur)]
                if isinstance(p, (ast.For, ast.While)):
                    break
                if isinstance(p, (ast.If, ast.IfExp)) and cur is not p.test:
                    cond = p
                    break
                cur = p
            col.check(cond is None, rule, TABLE, 'Table.merge',
                      'always:%s' % n.func.id, n,
                      'the callback decides for every id',
                      'the callback is bypassed when `%s`: a user function '
                      'is documented to receive every id\'s pair of '
                      'metadata (None for a table that lacks it)'
                      % (unparse(cond.test, 60) if cond is not None else ''))
    col.soft(k >= 2, rule, TABLE, 'Table.merge', 'instances', fn,
             '%d callback calls' % k, 'callback calls not found')
    # a nested helper that calls the function it is handed
    helpers = {}
    for d in ast.walk(fn):
        if isinstance(d, ast.FunctionDef) and d is not fn:
            ps = [a.arg for a in d.args.args]
            calls_param = {p_ for p_ in ps if any(
                isinstance(n, ast.Call) and isinstance(n.func, ast.Name) and
                n.func.id == p_ for n in ast.walk(d))}
            if calls_param:
                helpers[d.name] = (ps, calls_param)
    handed = {}
    for n in ast.walk(fn):
        if isinstance(n, ast.Call) and isinstance(n.func, ast.Name) and \
                n.func.id in helpers:
            ps, cp = helpers[n.func.id]
            b = dict(zip(ps, n.args))
            for kw in n.keywords:
                if kw.arg:
                    b[kw.arg] = kw.value
            axes = [const_str(v) for v in b.values()
                    if const_str(v) in ('sample', 'observation')]
            for p_ in cp:
                v = b.get(p_)
                if isinstance(v, ast.Name) and v.id in (
                        'sample_metadata_f', 'observation_metadata_f'):
                    handed.setdefault(v.id, []).append(n)
                    if len(axes) == 1:
                        col.check(v.id.startswith(axes[0]), rule, TABLE,
                                  'Table.merge', 'axis:%s' % axes[0], n,
                                  'the %s metadata is merged by %s'
                                  % (axes[0], v.id),
                                  '`%s` merges the %s metadata with `%s`: '
                                  'a custom function for that axis is '
                                  'ignored and the other axis\' function '
                                  'decides' % (unparse(n, 60), axes[0],
                                               v.id))
    for cb in ('sample_metadata_f', 'observation_metadata_f'):
        called = any(isinstance(n, ast.Call) and isinstance(
            n.func, ast.Name) and n.func.id == cb for n in ast.walk(fn)) \
            or cb in handed
        col.check(called, rule, TABLE, 'Table.merge', 'called:%s' % cb, fn,
                  'the callback is invoked',
                  '`%s` is accepted but never called (the general path '
                  'uses something else for that axis): a custom metadata '
                  'function is silently ignored' % cb)
    fn = repo.func(TABLE, 'Table.transform')
    direct = [n for n in body_walk(fn) if isinstance(n, ast.Call) and
              isinstance(n.func, ast.Name) and n.func.id == 'f']
    col.check(not direct, rule, TABLE, 'Table.transform', 'kernel-only',
              direct[0] if direct else fn,
              'the function is only handed to the kernel',
              'transform calls the user function itself (`%s`) besides '
              'the kernel: a function that works in place or keeps state '
              'sees the first vector twice'
              % (unparse(direct[0], 60) if direct else ''))


def rule_transpose_returns(repo, col):
    rule = 'AX-RET'
    fn = repo.func(TABLE, 'Table.transpose')
    bad = []
    for r in body_walk(fn):
        if isinstance(r, ast.Return) and r.value is not None:
            v = r.value
            if dotted(v) == 'self' or (isinstance(v, ast.Call) and
                                       dotted(v.func) in ('self.copy',
                                                          'copy',
                                                          'deepcopy')):
                bad.append(r)
    col.check(not bad, rule, TABLE, 'Table.transpose', 'returns-transposed',
              bad[0] if bad else fn, 'every return builds the swapped table',
              'a path returns `%s`: ids and metadata stay on their axes and '
              'the shape is not swapped'
              % (unparse(bad[0].value, 40) if bad else ''))


def rule_mapping_separator(repo, col):
    rule = 'AG-SEP'
    fn = repo.func(PARSE, 'MetadataMap.from_file')
    seps = []
    for n in body_walk(fn):
        if isinstance(n, ast.Call) and isinstance(n.func, ast.Attribute) \
                and n.func.attr == 'split':
            seps.append((const_str(n.args[0]) if n.args else None, n))
    distinct = {s for s, _ in seps}
    col.soft(bool(seps), rule, PARSE, 'MetadataMap.from_file', 'instances',
             fn, '%d split calls' % len(seps), 'no split calls found')
    if seps:
        bad = [n for s, n in seps if s != '\t']
        col.check(not bad, rule, PARSE, 'MetadataMap.from_file',
                  'separator', bad[0] if bad else seps[0][1],
                  'header and rows are split on the tab',
                  '`%s` does not split on the tab the data rows are split '
                  'on: a column name with a blank (or an empty one) shifts '
                  'every key against its values'
                  % (unparse(bad[0], 50) if bad else ''))


def rule_record_metadata_required(repo, col):
    rule = 'AG-VALID'
    for q in ('TableValidator._valid_rows', 'TableValidator._valid_columns'):
        fn = repo.func(VALID, q)
        ass = local_assignments(fn)
        vals = [v for v, _ in ass.get('required_keys', []) if v is not None]
        ok = False
        for v in vals:
            if isinstance(v, (ast.List, ast.Tuple)):
                keys = {const_str(e.elts[0]) for e in v.elts
                        if isinstance(e, ast.Tuple) and e.elts}
                ok = ok or {'id', 'metadata'} <= keys
        col.soft(bool(vals), rule, VALID, q, 'required-keys:instances', fn,
                 'required_keys found', 'required_keys not found')
        if vals:
            col.check(ok, rule, VALID, q, 'required-keys', vals[0],
                      'id and metadata are required of every record',
                      'metadata is no longer required / validated for every '
                      'record: a record whose metadata is a string or a '
                      'number is reported valid but cannot be loaded')


def rule_state_validated(repo, col):
    rule = 'OR-REFUSEKIND'
    m = repo.mod(ERR)
    target = None
    for q, n in m.defs.items():
        if isinstance(n, ast.FunctionDef) and n.name == 'state' and any(
                isinstance(d, ast.Attribute) and d.attr == 'setter'
                for d in n.decorator_list):
            target = (q, n)
    if target is None:
        col.unknown(rule, ERR, 'ErrorProfile.state', 'validated-store', None,
                    'state setter not found')
        return
    q, fn = target
    cfg = CFG(fn)
    tests = [c for c in cfg.stmt_nodes() if getattr(c, 'stmt', None) is not
             None and any(isinstance(x, ast.Compare) and any(
                 isinstance(o, (ast.NotIn, ast.In)) for o in x.ops) and
                 '_valid_states' in unparse(x, 200)
                 for x in _shallow_exprs(c.stmt))]
    stores = [c for c in cfg.stmt_nodes() if c.kind == 'stmt' and (
        isinstance(c.stmt, ast.Assign) and any(
            isinstance(t, ast.Subscript) and dotted(t.value) == 'self._state'
            for t in c.stmt.targets) or
        isinstance(c.stmt, ast.Expr) and isinstance(c.stmt.value, ast.Call)
        and dotted(c.stmt.value.func) == 'self._state.update')]
    if not stores or not tests:
        col.soft(False, rule, ERR, q + '.setter', 'validated-store', fn, '',
                 'stores / membership tests not located')
        return
    par = _parents(fn)

    def loop_of(st):
        cur = st
        while id(cur) in par:
            cur = par[id(cur)]
            if isinstance(cur, ast.For):
                return cur
        return None
    # a validating loop over X that is passed on every path, followed by a
    # storing loop over the same X, validates every stored element
    val_loops = []
    for t in tests:
        lp = loop_of(t.stmt)
        if lp is not None:
            ln = [c for c in cfg.stmt_nodes() if getattr(c, 'stmt', None)
                  is lp]
            if ln:
                val_loops.append((lp, ln[0]))
    leaks = []
    for s_ in stores:
        if not cfg.path_avoiding(cfg.entry, s_, set(tests)):
            continue
        slp = loop_of(s_.stmt)
        covered = False
        if slp is not None:
            for lp, lnode in val_loops:
                if lp is not slp and unparse(lp.iter) == unparse(slp.iter) \
                        and cfg.dominates(lnode, s_):
                    covered = True
        elif isinstance(s_.stmt, ast.Expr) and s_.stmt.value.args:
            # self._state.update(X) after a validating loop over X
            for lp, lnode in val_loops:
                if unparse(lp.iter) == unparse(s_.stmt.value.args[0]) and \
                        cfg.dominates(lnode, s_):
                    covered = True
        if not covered:
            leaks.append(s_)
    col.check(not leaks, rule, ERR, q + '.setter', 'validated-store',
              leaks[0].stmt if leaks else stores[0].stmt,
              'every store is preceded by the membership test on every path',
              'a path reaches the store of new reactions without the '
              'membership test (e.g. the `all` shorthand): an unknown '
              'reaction is accepted and later surfaces as a bare KeyError')


def _shallow_exprs(st):
    """Expressions evaluated by the statement itself (header of compound
    statements only)."""
    if isinstance(st, (ast.If, ast.While)):
        return list(ast.walk(st.test))
    if isinstance(st, ast.For):
        return list(ast.walk(st.iter))
    if isinstance(st, (ast.FunctionDef, ast.ClassDef, ast.With, ast.Try)):
        return []
    return list(ast.walk(st))


STAT_WORDS = ('min', 'max', 'median', 'mean')


def rule_stat_labels(repo, col):
    rule = 'AX-LABEL'
    rel = 'biom/cli/table_summarizer.py'
    fn = repo.func(rel, '_summarize_table')
    util = repo.func('biom/util.py', 'compute_counts_per_sample_stats')
    rets = [r for r in body_walk(util) if isinstance(r, ast.Return) and
            isinstance(r.value, ast.Tuple)]
    if not rets:
        col.unknown(rule, rel, '_summarize_table', 'stat-labels', fn,
                    'statistics tuple not found')
        return
    uass = local_assignments(util)

    def stat_of(e):
        if isinstance(e, ast.Name) and e.id in uass:
            for v, _ in uass[e.id]:
                if isinstance(v, ast.Call):
                    w = (call_name(v) or '').split('.')[-1]
                    if w in STAT_WORDS:
                        return w
        if isinstance(e, ast.Call):
            w = (call_name(e) or '').split('.')[-1]
            if w in STAT_WORDS:
                return w
        return None
    order = [stat_of(e) for e in rets[-1].value.elts]
    # names bound to the tuple's positions in the report
    bound = {}
    tuple_names = set()
    for n in body_walk(fn):
        if isinstance(n, ast.Assign) and isinstance(n.value, ast.Call) and \
                (call_name(n.value) or '').endswith(
                    'compute_counts_per_sample_stats'):
            t = n.targets[0]
            if isinstance(t, (ast.Tuple, ast.List)):
                for i, x in enumerate(t.elts):
                    if isinstance(x, ast.Name) and i < len(order):
                        bound[x.id] = order[i]
            elif isinstance(t, ast.Name):
                tuple_names.add(t.id)
    pairs = []     # (label text, statistic, node)
    for n in body_walk(fn):
        if isinstance(n, ast.BinOp) and isinstance(n.op, ast.Add) and \
                const_str(n.left) and isinstance(n.right, ast.Call) and \
                len(n.right.args) >= 2:
            v = n.right.args[1]
            if isinstance(v, ast.Name) and v.id in bound:
                pairs.append((const_str(n.left), bound[v.id], n))
        # for label, value in zip(<literal labels>, stats): ...
        if isinstance(n, ast.For) and isinstance(n.iter, ast.Call) and \
                call_name(n.iter) == 'zip' and len(n.iter.args) == 2:
            a, b = n.iter.args
            ass = local_assignments(fn)

            def lits(e):
                if isinstance(e, ast.Name) and e.id in ass:
                    for v, _ in ass[e.id]:
                        if v is not None:
                            return lits(v)
                if isinstance(e, (ast.Tuple, ast.List)) and all(
                        const_str(x) for x in e.elts):
                    return [const_str(x) for x in e.elts]
                return None
            la = lits(a)
            if la and isinstance(b, ast.Name) and b.id in tuple_names:
                for lab, st in zip(la, order):
                    pairs.append((lab, st, n))
    k = 0
    for lab, st, node in pairs:
        words = [w for w in STAT_WORDS if w in lab.lower().replace(
            'median', 'MED').replace('MED', 'median')]
        lw = lab.lower()
        word = 'median' if 'median' in lw else (
            'mean' if 'mean' in lw else ('min' if 'min' in lw else (
                'max' if 'max' in lw else None)))
        if word is None or st is None:
            continue
        k += 1
        col.check(word == st, rule, rel, '_summarize_table',
                  'stat:%s' % lab.strip().rstrip(':'), node,
                  'the line prints the statistic it names',
                  'the line labelled %r prints the %s' % (lab.strip(), st))
    col.soft(k >= 2, rule, rel, '_summarize_table', 'stat-labels:instances',
             fn, '%d labelled statistics' % k,
             'labelled statistics not recognised')


def rule_category_sets(repo, col):
    rule = 'AG-CATEGORIES'
    fn = repo.func(TABLE, 'Table.to_hdf5')
    ass = local_assignments(fn)

    def is_set(e, depth=0):
        if isinstance(e, ast.Call) and call_name(e) in ('set', 'frozenset',
                                                        'sorted'):
            return True
        if isinstance(e, ast.Name) and e.id in ass and depth < 3:
            vals = [v for v, _ in ass[e.id] if v is not None]
            return bool(vals) and all(is_set(v, depth + 1) for v in vals)
        return False
    k = 0
    for n in body_walk(fn):
        if isinstance(n, ast.Compare) and len(n.ops) == 1 and isinstance(
                n.ops[0], (ast.NotEq, ast.Eq)):
            sides = [n.left, n.comparators[0]]

            def about_md(e, depth=0):
                if any(isinstance(x, ast.Name) and 'md' in x.id
                       for x in ast.walk(e)):
                    return True
                if isinstance(e, ast.Name) and e.id in ass and depth < 3:
                    return any(v is not None and about_md(v, depth + 1)
                               for v, _ in ass[e.id])
                return False
            if not all(about_md(s_) for s_ in sides):
                continue
            if any(is_set(s_) for s_ in sides) or any(
                    isinstance(s_, ast.Call) and call_name(s_) == 'list'
                    or isinstance(s_, ast.Name) and any(
                        isinstance(v, ast.Call) and call_name(v) == 'list'
                        for v, _ in ass.get(s_.id, []) if v is not None)
                    for s_ in sides):
                k += 1
                col.check(all(is_set(s_) for s_ in sides), rule, TABLE,
                          'Table.to_hdf5', 'category-compare', n,
                          'categories are compared as sets',
                          'the categories of two ids are compared as '
                          'ordered sequences (`%s`): ids annotated with the '
                          'same categories in another order are refused'
                          % unparse(n, 70))
    if k == 0:
        # a one-sided test (difference / subset) in place of the equality
        for n in body_walk(fn):
            if not (isinstance(n, ast.If) and any(
                    isinstance(b_, ast.Raise) for b_ in n.body) and
                    'categor' in unparse(n, 2000).lower()):
                continue
            t = n.test
            if isinstance(t, ast.Name) and t.id in ass:
                vals = [v for v, _ in ass[t.id] if v is not None]
                t = vals[0] if len(vals) == 1 else t
            one_sided = (isinstance(t, ast.Call) and isinstance(
                t.func, ast.Attribute) and t.func.attr in (
                'difference', 'issubset', 'issuperset')) or (
                isinstance(t, ast.BinOp) and isinstance(t.op, ast.Sub)) or (
                isinstance(t, ast.Compare) and isinstance(
                    t.ops[0], (ast.LtE, ast.GtE, ast.Lt, ast.Gt))) or (
                isinstance(t, ast.UnaryOp) and isinstance(
                    t.operand, ast.Call) and isinstance(
                    t.operand.func, ast.Attribute) and
                t.operand.func.attr in ('issubset', 'issuperset'))
            if one_sided:
                k += 1
                col.bad(rule, TABLE, 'Table.to_hdf5', 'category-compare', n,
                        'the categories of an id are only tested one way '
                        '(`%s`): an id carrying a category the first id '
                        'lacks is written without it' % unparse(t, 60))
    col.soft(k >= 1, rule, TABLE, 'Table.to_hdf5', 'category-compare:'
             'instances', fn, '%d comparisons' % k,
             'category comparison not found')


def rule_dup_test_on_result(repo, col):
    """OR-COPERM (renaming): whether a renaming produces duplicate ids is
    decided on the resulting id array, not against the ids in use before
    the renaming (a name given up in the same call is free)."""
    rule = 'OR-COPERM'
    fn = repo.func(TABLE, 'Table.update_ids')
    par = _parents(fn)
    ass = local_assignments(fn)
    # names holding the new id array: allocated and filled by position
    result_names = {dotted(n.targets[0].value) for n in body_walk(fn)
                    if isinstance(n, ast.Assign) and isinstance(
                        n.targets[0], ast.Subscript)}
    result_names.discard(None)
    grew = True
    while grew:
        grew = False
        for nm, vals in ass.items():
            if nm not in result_names and any(
                    isinstance(v, ast.Name) and v.id in result_names
                    for v, _ in vals if v is not None):
                result_names.add(nm)
                grew = True
    if not result_names:
        col.unknown(rule, TABLE, 'Table.update_ids', 'duplicates-on-result',
                    fn, 'the new id array is not recognised')
        return
    k = 0
    for n in body_walk(fn):
        if isinstance(n, ast.Raise) and 'uplicate' in unparse(n, 200):
            k += 1
            cur, guards = n, []
            while id(cur) in par:
                cur = par[id(cur)]
                if isinstance(cur, ast.If):
                    guards.append(cur.test)
            names = {x.id for g in guards for x in ast.walk(g)
                     if isinstance(x, ast.Name)}
            on_result = bool(names & result_names)
            col.check(on_result, rule, TABLE, 'Table.update_ids',
                      'duplicates-on-result#%d' % k, n,
                      'duplicates are looked for among the new ids',
                      'duplicate ids are refused by a test that does not '
                      'look at the new id array (%s): a valid renaming that '
                      'reuses a name given up in the same call (swap, '
                      'rotation) is refused'
                      % ', '.join(unparse(g, 50) for g in guards[:2]))
    col.ok(rule, TABLE, 'Table.update_ids', 'duplicates-on-result:scan', fn,
           '%d duplicate refusals' % k)


def rule_convert_single_write(repo, col):
    """SB-TSVPATHS (CLI): `biom convert --to-tsv` writes the text once:
    either the table streams it (direct_io) or the returned text is
    written, not both."""
    rule = 'SB-TSVPATHS'
    rel = 'biom/cli/table_converter.py'
    fn = repo.func(rel, '_convert')
    calls = [n for n in body_walk(fn) if isinstance(n, ast.Call) and
             isinstance(n.func, ast.Attribute) and n.func.attr == 'to_tsv']
    for c in calls:
        if kwarg(c, 'direct_io') is None:
            col.ok(rule, rel, '_convert', 'single-write', c,
                   'the returned text is written by the caller')
            continue
        par = _parents(fn)
        p = par.get(id(c))
        names = set()
        if isinstance(p, ast.Assign):
            names = {t.id for t in p.targets if isinstance(t, ast.Name)}
        again = [w for w in body_walk(fn) if isinstance(w, ast.Call) and
                 isinstance(w.func, ast.Attribute) and
                 w.func.attr == 'write' and w.args and
                 isinstance(w.args[0], ast.Name) and w.args[0].id in names]
        col.check(not again, rule, rel, '_convert', 'single-write',
                  again[0] if again else c,
                  'streamed output is not written a second time',
                  'the table streams its text to the file (direct_io) and '
                  'the returned value is written as well: the header lines '
                  'appear a second time after the last row, which the '
                  'reader takes for data')


RULE_TEXT.setdefault('OR-COPERM', ' '.join(
    rule_dup_test_on_result.__doc__.split()))
RULE_TEXT.setdefault('SB-TSVPATHS', ' '.join(
    rule_convert_single_write.__doc__.split()))


def rule_kernels_see_sorted(repo, col, which=('transform', 'subsample')):
    """OR-SORTED (order-sensitive kernels): the value arrays handed to the
    transform kernel (whose user function may depend on the order of the
    values it gets) and to the subsampling kernels (whose draws are mapped
    back to entries in storage order) are in index order: `sort_indices()`
    on the matrix dominates the kernel call.  Otherwise tables with equal
    content but another internal layout (unsorted indices left behind by a
    reorder) give different results, and the same seed does not reproduce a
    subsample after a read accessor has re-sorted the layout."""
    rule = 'OR-SORTED'
    KERN = {'transform': ('Table.transform', '_transform'),
            'subsample': ('Table.subsample', 'subsample')}
    for key in which:
        q, kname = KERN[key]
        fn = repo.func(TABLE, q)
        cfg = CFG(fn)
        kcalls = [n for n in cfg.stmt_nodes() if n.kind == 'stmt' and any(
            isinstance(c, ast.Call) and call_name(c) == kname
            for c in ast.walk(n.stmt))]
        if not kcalls:
            col.unknown(rule, TABLE, q, 'sorted-before-kernel', fn,
                        'kernel call not found')
            continue
        for kc in kcalls:
            arr = None
            for c in ast.walk(kc.stmt):
                if isinstance(c, ast.Call) and call_name(c) == kname and \
                        c.args:
                    arr = dotted(c.args[0])
            sorters = [n for n in cfg.stmt_nodes() if n.kind == 'stmt' and
                       any(isinstance(c, ast.Call) and isinstance(
                           c.func, ast.Attribute) and c.func.attr in (
                           'sort_indices', 'sorted_indices') and (
                           arr is None or dotted(c.func.value) == arr or
                           (dotted(c.func.value) or '').endswith('._data'))
                           for c in ast.walk(n.stmt))]
            ok = any(cfg.dominates(s_, kc) for s_ in sorters)
            col.check(ok, rule, TABLE, q, 'sorted-before-kernel', kc.stmt,
                      'sort_indices() on the matrix dominates the kernel '
                      'call', 'no sort_indices()/sorted_indices() on the '
                      'matrix precedes the %s kernel on every path: after a '
                      'reorder the stored values are not in index order, so '
                      'equal tables give different results%s'
                      % (kname, ' and a seed does not reproduce a draw once '
                         'a read has re-sorted the layout'
                         if key == 'subsample' else ''))


RULE_TEXT['OR-SORTED'] = ' '.join(rule_kernels_see_sorted.__doc__.split())
