"""Checker self-validation (thorough tier).

For every variant in selftest_variants.VARIANTS a scratch copy of the
analysable sources of /repo's *current* tree is made outside /repo and
/verif, one textual edit is applied, and the property's rules are run on it:

* a ``break`` variant must be reported as a violation by the named rule;
* a ``twin`` (behaviour-preserving refactor) must stay silent.

A miss or a noisy twin means the checker - not the repository - is wrong and
is reported as ANALYSIS-ERROR (exit 2).  Variants whose anchor text is not in
the current tree (the tree was edited) are skipped and counted.
"""
import os
import shutil
import sys
import tempfile
from concurrent.futures import ProcessPoolExecutor

from .source import REPO

COPY = ['biom', 'doc/documentation/format_versions/biom-2.1.rst']


def make_copy(dst, root=None):
    root = root or REPO
    for rel in COPY:
        src = os.path.join(root, rel)
        tgt = os.path.join(dst, rel)
        if os.path.isdir(src):
            shutil.copytree(
                src, tgt, ignore=shutil.ignore_patterns(
                    'tests', 'assets', '__pycache__', '*.so', '*.c', '*.pyc'))
        else:
            os.makedirs(os.path.dirname(tgt), exist_ok=True)
            shutil.copy(src, tgt)


def _run_variant(args):
    prop, var, root = args
    sys.path.insert(0, os.path.dirname(os.path.dirname(
        os.path.abspath(__file__))))
    from sa.source import Repo
    from sa.run import run_property
    tmp = tempfile.mkdtemp(prefix='verif_selftest_')
    try:
        make_copy(tmp, root)
        if 'patch' in var:
            import subprocess
            p = subprocess.run(['git', 'apply', '--include=biom/*',
                                var['patch']], cwd=tmp, capture_output=True,
                               text=True)
            if p.returncode:
                return {'id': var['id'], 'status': 'stale',
                        'why': 'patch does not apply to the current tree'}
        edits = [] if 'patch' in var else (
            var['edits'] if 'edits' in var else [var])
        for ed in edits:
            path = os.path.join(tmp, ed['file'])
            with open(path, encoding='utf8') as f:
                src = f.read()
            if src.count(ed['old']) != 1:
                return {'id': var['id'], 'status': 'stale',
                        'why': 'anchor text occurs %d times in %s'
                        % (src.count(ed['old']), ed['file'])}
            src = src.replace(ed['old'], ed['new'])
            with open(path, 'w', encoding='utf8') as f:
                f.write(src)
        code, col, new = run_property(prop, quiet=True, evidence=False,
                                      repo=Repo(tmp))
        rules = sorted({o.rule for o in new})
        if var['kind'] == 'break':
            want = var.get('rule')
            wants = (want,) if isinstance(want, str) else (want or ())
            ok = code == 1 and (not wants or any(w in rules
                                                 for w in wants))
            return {'id': var['id'], 'kind': 'break',
                    'status': 'detected' if ok else 'MISSED',
                    'code': code, 'rules': rules, 'want': want}
        ok = code == 0
        return {'id': var['id'], 'kind': 'twin',
                'status': 'silent' if ok else 'NOISY', 'code': code,
                'rules': rules,
                'detail': [repr(o)[:200] for o in new][:3]}
    except Exception as e:  # pragma: no cover
        return {'id': var['id'], 'status': 'ERROR', 'why': repr(e)}
    finally:
        shutil.rmtree(tmp, ignore_errors=True)


def patch_variants(prop):
    """Independent seeded changes (must be reported by the checks recorded
    in seeded/index.json) and refactor twins (must stay silent)."""
    import json
    out = []
    sdir = os.path.join(VERIF, 'seeded')
    idx = {}
    if os.path.exists(os.path.join(sdir, 'index.json')):
        with open(os.path.join(sdir, 'index.json')) as f:
            idx = json.load(f)
    for sid, hits in sorted(idx.items()):
        if prop in hits:
            out.append({'id': 'seed:' + sid, 'kind': 'break',
                        'patch': os.path.join(sdir, sid, 'patch.diff'),
                        'rule': tuple(h.split('@')[0] for h in hits[prop])})
    tdir = os.path.join(VERIF, 'twins')
    if os.path.isdir(tdir):
        for fn in sorted(os.listdir(tdir)):
            if fn.endswith('.diff'):
                out.append({'id': 'twin:' + fn[:-5], 'kind': 'twin',
                            'patch': os.path.join(tdir, fn)})
    return out


VERIF = os.path.dirname(os.path.dirname(os.path.abspath(__file__)))


def run_for_property(prop, say=print, root=None, workers=16):
    from .selftest_variants import VARIANTS
    todo = [v for v in VARIANTS if prop in v['props']] + patch_variants(prop)
    if not todo:
        return {'selftest_variants': 0}
    root = root or REPO
    with ProcessPoolExecutor(max_workers=min(workers, len(todo))) as ex:
        results = list(ex.map(_run_variant, [(prop, v, root) for v in todo]))
    fails = [r for r in results if r['status'] in ('MISSED', 'NOISY',
                                                   'ERROR')]
    summary = {
        'selftest_variants': len(results),
        'selftest_detected': sum(1 for r in results
                                 if r['status'] == 'detected'),
        'selftest_silent_twins': sum(1 for r in results
                                     if r['status'] == 'silent'),
        'selftest_stale': [r['id'] for r in results
                           if r['status'] == 'stale'],
        'selftest_failures': fails,
        'selftest_results': results,
    }
    say('self-validation %s: %d variants, %d breaks detected, %d twins '
        'silent, %d stale, %d failures'
        % (prop, len(results), summary['selftest_detected'],
           summary['selftest_silent_twins'], len(summary['selftest_stale']),
           len(fails)))
    for r in fails:
        say('  selftest failure: %r' % r)
    return summary


if __name__ == '__main__':
    sys.path.insert(0, os.path.dirname(os.path.dirname(
        os.path.abspath(__file__))))
    from sa.props import PROPS
    props = sys.argv[1:] or sorted(PROPS)
    bad = 0
    for p in props:
        s = run_for_property(p)
        bad += len(s.get('selftest_failures', []))
    sys.exit(2 if bad else 0)
