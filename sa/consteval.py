"""Constant evaluation over the repository's own module constants and tiny
pure helper functions (bodies made of ``if`` / ``return`` only).

``UNKNOWN`` is returned for anything not evaluable; callers treat it as
"unresolved" (never as a verdict).
"""
import ast

from .astutil import dotted


class _Unknown:
    def __repr__(self):
        return 'UNKNOWN'


UNKNOWN = _Unknown()


def _modname_to_rel(modname, repo, cur_rel=None, level=0):
    if level and cur_rel:
        base = cur_rel.rsplit('/', 1)[0]
        for _ in range(level - 1):
            base = base.rsplit('/', 1)[0]
        rel = base + ('/' + modname.replace('.', '/') if modname else '')
    else:
        rel = modname.replace('.', '/')
    for cand in (rel + '.py', rel + '/__init__.py', rel + '.pyx'):
        if cand in repo.modules:
            return cand
    return None


_FALLTHROUGH = object()


class ConstEval:
    def __init__(self, repo):
        self.repo = repo
        self._modenv = {}
        self._imports = {}

    # ---- module environments ------------------------------------------
    def imports(self, rel):
        """local name -> (module rel or dotted third-party name, attr|None)"""
        if rel in self._imports:
            return self._imports[rel]
        m = self.repo.mod(rel)
        out = {}
        for st in ast.walk(m.tree):
            if isinstance(st, ast.Import):
                for a in st.names:
                    out[a.asname or a.name.split('.')[0]] = (
                        a.name if a.asname else a.name.split('.')[0], None)
            elif isinstance(st, ast.ImportFrom):
                target = _modname_to_rel(st.module or '', self.repo, rel,
                                         st.level)
                for a in st.names:
                    out[a.asname or a.name] = (target or (st.module or ''),
                                               a.name)
        self._imports[rel] = out
        return out

    def module_assign(self, rel, name):
        """Last module-level ``name = expr`` (expr node) or None."""
        m = self.repo.mod(rel)
        found = None
        for st in m.tree.body:
            if isinstance(st, ast.Assign):
                for t in st.targets:
                    if isinstance(t, ast.Name) and t.id == name:
                        found = st.value
            elif isinstance(st, ast.Try):
                for s2 in st.body:
                    if isinstance(s2, ast.Assign):
                        for t in s2.targets:
                            if isinstance(t, ast.Name) and t.id == name:
                                found = s2.value
        return found

    def resolve_name(self, rel, name, depth=0):
        """Follow imports: returns (rel, kind, node) where kind is 'const'
        (node = expr), 'func' (node = FunctionDef), 'class' or None."""
        if depth > 5:
            return None
        m = self.repo.modules.get(rel)
        if m is None:
            return None
        d = m.defs.get(name)
        if isinstance(d, ast.FunctionDef):
            return (rel, 'func', d)
        if isinstance(d, ast.ClassDef):
            return (rel, 'class', d)
        v = self.module_assign(rel, name)
        if v is not None:
            return (rel, 'const', v)
        imp = self.imports(rel).get(name)
        if imp and imp[1] is not None and imp[0] in self.repo.modules:
            return self.resolve_name(imp[0], imp[1], depth + 1)
        return None

    # ---- evaluation ---------------------------------------------------
    def ev(self, node, rel, env=None, depth=0):
        env = env or {}
        if depth > 12 or node is None:
            return UNKNOWN
        if isinstance(node, ast.Constant):
            return node.value
        if isinstance(node, ast.Name):
            if node.id in env:
                return env[node.id]
            r = self.resolve_name(rel, node.id)
            if r and r[1] == 'const':
                return self.ev(r[2], r[0], {}, depth + 1)
            return UNKNOWN
        if isinstance(node, (ast.Tuple, ast.List, ast.Set)):
            vals = [self.ev(e, rel, env, depth + 1) for e in node.elts]
            if any(v is UNKNOWN for v in vals):
                return UNKNOWN
            if isinstance(node, ast.Tuple):
                return tuple(vals)
            if isinstance(node, ast.List):
                return vals
            try:
                return set(vals)
            except TypeError:
                return UNKNOWN
        if isinstance(node, ast.Dict):
            out = {}
            for k, v in zip(node.keys, node.values):
                if k is None:
                    return UNKNOWN
                kv = self.ev(k, rel, env, depth + 1)
                if kv is UNKNOWN:
                    return UNKNOWN
                out[kv] = self.ev(v, rel, env, depth + 1)
            return out
        if isinstance(node, ast.JoinedStr):
            parts = []
            for v in node.values:
                if isinstance(v, ast.Constant):
                    parts.append(str(v.value))
                else:
                    if v.format_spec is not None or v.conversion not in (
                            -1, 115):
                        return UNKNOWN
                    x = self.ev(v.value, rel, env, depth + 1)
                    if x is UNKNOWN:
                        return UNKNOWN
                    parts.append(str(x))
            return ''.join(parts)
        if isinstance(node, ast.BinOp):
            left = self.ev(node.left, rel, env, depth + 1)
            right = self.ev(node.right, rel, env, depth + 1)
            if left is UNKNOWN or right is UNKNOWN:
                return UNKNOWN
            try:
                if isinstance(node.op, ast.Mod):
                    return left % right
                if isinstance(node.op, ast.Add):
                    return left + right
                if isinstance(node.op, ast.Sub):
                    return left - right
                if isinstance(node.op, ast.Mult):
                    return left * right
            except Exception:
                return UNKNOWN
            return UNKNOWN
        if isinstance(node, ast.Subscript):
            base = self.ev(node.value, rel, env, depth + 1)
            idx = self.ev(node.slice, rel, env, depth + 1)
            if base is UNKNOWN or idx is UNKNOWN:
                return UNKNOWN
            try:
                return base[idx]
            except Exception:
                return UNKNOWN
        if isinstance(node, ast.Compare) and len(node.ops) == 1:
            left = self.ev(node.left, rel, env, depth + 1)
            right = self.ev(node.comparators[0], rel, env, depth + 1)
            if left is UNKNOWN or right is UNKNOWN:
                return UNKNOWN
            op = node.ops[0]
            try:
                if isinstance(op, ast.Is):
                    return left is right
                if isinstance(op, ast.IsNot):
                    return left is not right
                if isinstance(op, ast.Eq):
                    return left == right
                if isinstance(op, ast.NotEq):
                    return left != right
                if isinstance(op, ast.In):
                    return left in right
                if isinstance(op, ast.NotIn):
                    return left not in right
            except Exception:
                return UNKNOWN
            return UNKNOWN
        if isinstance(node, ast.UnaryOp) and isinstance(node.op, ast.Not):
            v = self.ev(node.operand, rel, env, depth + 1)
            return UNKNOWN if v is UNKNOWN else (not v)
        if isinstance(node, ast.BoolOp):
            # short-circuit evaluation with Python's value semantics
            is_and = isinstance(node.op, ast.And)
            last = UNKNOWN
            for v_ in node.values:
                last = self.ev(v_, rel, env, depth + 1)
                if last is UNKNOWN:
                    return UNKNOWN
                try:
                    if bool(last) != is_and:
                        return last
                except Exception:
                    return UNKNOWN
            return last
        if isinstance(node, ast.Attribute):
            # module constant through `import biom.util` style
            d = dotted(node)
            if d:
                head = d.split('.')[0]
                imp = self.imports(rel).get(head)
                if imp and imp[1] is None:
                    target = _modname_to_rel('.'.join(d.split('.')[:-1]),
                                             self.repo)
                    if target:
                        r = self.resolve_name(target, d.split('.')[-1])
                        if r and r[1] == 'const':
                            return self.ev(r[2], r[0], {}, depth + 1)
            return UNKNOWN
        if isinstance(node, (ast.ListComp, ast.SetComp, ast.GeneratorExp)) \
                and len(node.generators) == 1 and isinstance(
                    node.generators[0].target, ast.Name):
            g = node.generators[0]
            it = self.ev(g.iter, rel, env, depth + 1)
            if it is UNKNOWN or not isinstance(it, (list, tuple, set,
                                                    frozenset)):
                return UNKNOWN
            out = []
            for x in it:
                e2 = dict(env)
                e2[g.target.id] = x
                keep = True
                for c in g.ifs:
                    t = self.ev(c, rel, e2, depth + 1)
                    if t is UNKNOWN:
                        return UNKNOWN
                    keep = keep and bool(t)
                if keep:
                    v = self.ev(node.elt, rel, e2, depth + 1)
                    if v is UNKNOWN:
                        return UNKNOWN
                    out.append(v)
            if isinstance(node, ast.SetComp):
                try:
                    return set(out)
                except TypeError:
                    return UNKNOWN
            return out
        if isinstance(node, ast.Call):
            return self._call(node, rel, env, depth)
        if isinstance(node, ast.IfExp):
            t = self.ev(node.test, rel, env, depth + 1)
            if t is UNKNOWN:
                return UNKNOWN
            return self.ev(node.body if t else node.orelse, rel, env,
                           depth + 1)
        return UNKNOWN

    def _call(self, node, rel, env, depth):
        # regular expressions with a constant pattern (the pattern is data of
        # the program; applying it is evaluation, not execution of the repo)
        if isinstance(node.func, ast.Attribute) and node.func.attr in (
                'split', 'sub', 'findall') and not node.keywords:
            import re as _re
            pat = None
            args = list(node.args)
            if dotted(node.func.value) == 're' and args:
                pat = self.ev(args[0], rel, env, depth + 1)
                args = args[1:]
            elif isinstance(node.func.value, ast.Name) and \
                    node.func.value.id not in env:
                r = self.resolve_name(rel, node.func.value.id)
                if r and r[1] == 'const' and isinstance(
                        r[2], ast.Call) and dotted(r[2].func) == \
                        're.compile' and r[2].args:
                    pat = self.ev(r[2].args[0], r[0], {}, depth + 1)
            if isinstance(pat, str):
                vals = [self.ev(a, rel, env, depth + 1) for a in args]
                if all(isinstance(v, str) for v in vals) and vals:
                    try:
                        return getattr(_re, node.func.attr)(pat, *vals)
                    except Exception:
                        return UNKNOWN
        # str methods on constants
        if isinstance(node.func, ast.Attribute):
            base = self.ev(node.func.value, rel, env, depth + 1)
            args = [self.ev(a, rel, env, depth + 1) for a in node.args]
            if base is not UNKNOWN and isinstance(base, str) and \
                    not any(a is UNKNOWN for a in args) and \
                    node.func.attr in ('lower', 'upper', 'strip', 'join',
                                       'format', 'replace', 'split'):
                try:
                    return getattr(base, node.func.attr)(*args)
                except Exception:
                    return UNKNOWN
        name = dotted(node.func)
        if name == 'isinstance' and len(node.args) == 2:
            v = self.ev(node.args[0], rel, env, depth + 1)
            if v is UNKNOWN:
                return UNKNOWN
            T = {'dict': dict, 'list': list, 'str': str, 'int': int,
                 'float': float, 'bool': bool, 'tuple': tuple, 'set': set,
                 'bytes': bytes}
            spec = node.args[1]
            elts = spec.elts if isinstance(spec, ast.Tuple) else [spec]
            types = []
            for e_ in elts:
                if isinstance(e_, ast.Name) and e_.id in T:
                    types.append(T[e_.id])
                elif isinstance(e_, ast.Call) and dotted(e_.func) == 'type' \
                        and len(e_.args) == 1 and isinstance(
                        e_.args[0], ast.Constant) and \
                        e_.args[0].value is None:
                    types.append(type(None))
                else:
                    return UNKNOWN
            return isinstance(v, tuple(types))
        if name in ('any', 'all', 'len', 'bool', 'sorted') and \
                len(node.args) == 1 and not node.keywords:
            v = self.ev(node.args[0], rel, env, depth + 1)
            if v is UNKNOWN:
                return UNKNOWN
            try:
                return {'any': any, 'all': all, 'len': len, 'bool': bool,
                        'sorted': sorted}[name](v)
            except Exception:
                return UNKNOWN
        if name in ('frozenset', 'set', 'tuple', 'list', 'str') and \
                len(node.args) == 1:
            v = self.ev(node.args[0], rel, env, depth + 1)
            if v is UNKNOWN:
                return UNKNOWN
            try:
                return {'frozenset': frozenset, 'set': set, 'tuple': tuple,
                        'list': list, 'str': str}[name](v)
            except Exception:
                return UNKNOWN
        if name and '.' not in name:
            r = self.resolve_name(rel, name)
            if r and r[1] == 'func':
                return self._apply(r[2], r[0], node, rel, env, depth)
        return UNKNOWN

    def _apply(self, func, frel, call, rel, env, depth):
        from .astutil import param_names, param_default
        params = param_names(func)
        bound = {}
        for p, a in zip(params, call.args):
            bound[p] = self.ev(a, rel, env, depth + 1)
        for kw in call.keywords:
            if kw.arg:
                bound[kw.arg] = self.ev(kw.value, rel, env, depth + 1)
        for p in params:
            if p not in bound:
                d = param_default(func, p)
                bound[p] = self.ev(d, frel, {}, depth + 1) if d is not None \
                    else UNKNOWN
        return self._run(func.body, frel, bound, depth + 1)

    def run_body(self, body, rel, env):
        """Return value of straight-line / if-else code under `env` (a
        dict that is updated in place), UNKNOWN when anything is not
        evaluable.  Statements other than docstrings, assignments to names,
        if/else and return make the result UNKNOWN."""
        for st in body:
            if isinstance(st, ast.Expr) and isinstance(st.value,
                                                       ast.Constant):
                continue
            if isinstance(st, ast.Return):
                return self.ev(st.value, rel, env, 1) if st.value \
                    is not None else None
            if isinstance(st, ast.If):
                t = self.ev(st.test, rel, env, 1)
                if t is UNKNOWN:
                    return UNKNOWN
                r = self.run_body(st.body if t else st.orelse, rel, env)
                if r is not _FALLTHROUGH:
                    return r
                continue
            if isinstance(st, ast.Assign) and len(st.targets) == 1 and \
                    isinstance(st.targets[0], ast.Name):
                env[st.targets[0].id] = self.ev(st.value, rel, env, 1)
                continue
            return UNKNOWN
        return _FALLTHROUGH

    def _run(self, body, rel, env, depth):
        for st in body:
            if isinstance(st, ast.Expr) and isinstance(st.value,
                                                       ast.Constant):
                continue        # docstring
            if isinstance(st, ast.Return):
                return self.ev(st.value, rel, env, depth + 1)
            if isinstance(st, ast.If):
                t = self.ev(st.test, rel, env, depth + 1)
                if t is UNKNOWN:
                    return UNKNOWN
                r = self._run(st.body if t else st.orelse, rel, env, depth)
                if r is not None:
                    return r
                continue
            if isinstance(st, ast.Assign) and len(st.targets) == 1 and \
                    isinstance(st.targets[0], ast.Name):
                env = dict(env)
                env[st.targets[0].id] = self.ev(st.value, rel, env,
                                                depth + 1)
                continue
            return UNKNOWN
        return None


def axis_num_mapping(repo):
    """{'sample': n, 'observation': m} as Table._axis_to_num computes it,
    by evaluating the function for both axis names (any if/else shape)."""
    try:
        f = repo.func('biom/table.py', 'Table._axis_to_num')
    except Exception:
        return {}
    ce = ConstEval(repo)
    params = [a.arg for a in f.args.args if a.arg not in ('self', 'cls')]
    out = {}
    for name in ('sample', 'observation'):
        r = ce.run_body(f.body, 'biom/table.py', {params[0]: name}) \
            if params else UNKNOWN
        if r is not UNKNOWN and r is not _FALLTHROUGH and isinstance(r, int):
            out[name] = r
    return out
