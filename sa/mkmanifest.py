#!/venv/bin/python
"""Regenerates /verif/MANIFEST.json from the property registry."""
import json
import os
import sys

sys.path.insert(0, os.path.dirname(os.path.dirname(os.path.abspath(__file__))))
from sa.props import PROPS  # noqa: E402
from sa.claims import CLAIMS, NOT_APPLICABLE  # noqa: E402

VERIF = os.path.dirname(os.path.dirname(os.path.abspath(__file__)))

BASELINE = ("cd /repo && /venv/bin/python -m pytest -ra -q -p no:cacheprovider "
            "--timeout=900 --continue-on-collection-errors")


def _extra_rules(pid):
    """Rule ids this property's check evaluates that its hand-written claim
    text does not already name."""
    import io
    import contextlib
    from sa.run import run_property
    from sa.source import Repo
    with contextlib.redirect_stdout(io.StringIO()):
        code, col, new = run_property(pid, quiet=True, evidence=False,
                                      repo=Repo())
    text = CLAIMS[pid]['text']
    return {o.rule for o in col.obs if o.rule not in text}


def main():
    checks = []
    for pid in sorted(PROPS):
        c = CLAIMS[pid]
        checks.append({
            'property_id': pid,
            'quick_cmd': '/venv/bin/python sa/run.py %s --tier quick' % pid,
            'thorough_cmd': '/venv/bin/python sa/run.py %s --tier thorough'
                            % pid,
            'evidence_file': 'evidence/%s.json' % pid,
            'replay_cmd_template': '/venv/bin/python sa/run.py --replay '
                                   '{path}',
            'engine': 'sa',
            'level_claimed': {
                'category': 'other',
                'text': c['text'] + ' Further necessary conditions added '
                        'during the seeded rounds (scope-wide rules over the '
                        'functions reachable from this property\'s anchors '
                        'and construct-anchored rules; DESIGN.md 11.3-11.4, '
                        'each named with its rule id in the evidence file): '
                        + ', '.join(sorted(
                            k for k in _extra_rules(pid))) + '.',
                'design_ref': 'DESIGN.md section 6 (%s), 11.3-11.4, 12'
                              % pid,
            },
            'level_note': c['note'],
            'technique': c['technique'] + '; AST normalisation (helper '
                         'inlining, literal-loop unrolling) before '
                         'shape-reading rules; flow-sensitive argument-alias '
                         'and closure-scope scans',
        })
    na = [{'property_id': p, 'reason': r}
          for p, r in sorted(NOT_APPLICABLE.items()) if p not in PROPS]
    man = {
        'version': 1,
        'setup_cmd': '/venv/bin/python -m compileall -q sa',
        'hooks': {
            'guard': 'BIOM_FORMAT_VERIF',
            'enable': 'none needed: the checks are static analyses of the '
                      'source text; no hook or instrumentation commit exists '
                      'in /repo',
            'baseline_off_cmd': BASELINE,
            'source_commits': [],
            'add_only': True,
        },
        'engines': [{
            'name': 'sa',
            'path': 'sa/',
            'serves_properties': sorted(PROPS),
            'kind_free_text': 'purpose-built static analyser (python ast + '
                              'de-cythonised kernels + rst spec): CFG / '
                              'dominators, axis-role abstract interpretation, '
                              'effect and ownership summaries, agreement '
                              'tables, text-flow rules',
        }],
        'checks': checks,
        'notes': 'Every check decides structural clauses (necessary '
                 'conditions) of its property from the source of /repo '
                 'without importing or running it; what is and is not '
                 'decided per property is in DESIGN.md section 6 and in '
                 'level_claimed.text. Exit 2 + ANALYSIS-ERROR means the '
                 'analysis lost sight of the code (never reported as a pass '
                 'or a violation). known_findings.json lists recorded '
                 'defects and fix: commits.',
        'not_applicable': na,
    }
    with open(os.path.join(VERIF, 'MANIFEST.json'), 'w') as f:
        json.dump(man, f, indent=1)
        f.write('\n')
    print('MANIFEST.json: %d checks, %d not_applicable' % (len(checks),
                                                          len(na)))


if __name__ == '__main__':
    main()
