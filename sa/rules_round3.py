"""Necessary-condition rules added after the third round of independent
seeded changes."""
import ast

from .astutil import (body_walk, call_name, const_str, dotted, kwarg,
                      local_assignments, unparse)
from .cfg import CFG

TABLE = 'biom/table.py'
PARSE = 'biom/parse.py'
VALID = 'biom/cli/table_validator.py'

RULE_TEXT = {
    'SB-KERNELPATH': 'Every normal exit of Table.filter passes through the '
                     'compiled kernel (which is where the selection is '
                     'validated and applied), and what the kernel returns is '
                     'installed unchanged.',
    'TA-H5OPTS': 'No dataset of the HDF5 writer is created with a lossy '
                 'storage filter (scaleoffset).',
    'TA-ENCODER': 'json.dumps keeps its ASCII-only output (ensure_ascii is '
                  'not switched off): raw U+2028 / U+2029 / U+0085 would '
                  'split lines for readers that take a list of lines.',
    'TA-IDTEXT': 'The TSV reader takes id text as it stands in the file: '
                 'slices, elements and strip() only.',
    'AG-SPEC': 'Every group-metadata dataset carries its data_type '
               'attribute.',
    'EF-FRESH': 'copy() hands the constructor nothing that is still shared '
                'with the receiver.',
    'AX-FWD': 'collapse partitions with the defaults: it neither drops the '
              'None group nor empty vectors.',
    'TA-PARAMKEEP': 'A parameter whose None-ness selects a later step is '
                    'not re-bound to None on the way.',
    'OR-FILEORDER': 'Positions are ordered as numbers, not as text.',
    'AG-VALID': 'The validator\'s integer test rejects booleans; ids are '
                'decoded as UTF-8.',
    'SB-EMPTYDEF': 'A table is empty iff one of its id arrays is empty '
                   '(the test must not depend on the matrix, which the '
                   'constructor checks against the ids afterwards).',
    'SB-UCCOUNT': 'parse_uc only ever increments a cell.',
    'AX-SHAPE': 'np.bincount over positions of an axis states minlength.',
    'TA-ELEMTYPE': 'to_json decides matrix_element_type from the type of '
                   'the element, not from its value.',
}


def _parents(fn):
    par = {}
    for p in ast.walk(fn):
        for c in ast.iter_child_nodes(p):
            par[id(c)] = p
    return par


# ---------------------------------------------------------------------------
def rule_kernel_path(repo, col):
    rule = 'SB-KERNELPATH'
    fn = repo.func(TABLE, 'Table.filter')
    cfg = CFG(fn)
    kern = [n for n in cfg.stmt_nodes() if n.kind == 'stmt' and any(
        isinstance(c, ast.Call) and call_name(c) == '_filter'
        for c in ast.walk(n.stmt))]
    if not kern:
        col.unknown(rule, TABLE, 'Table.filter', 'kernel', fn,
                    'kernel call not found')
        return
    rets = [n for n in cfg.stmt_nodes() if n.kind == 'stmt' and
            isinstance(n.stmt, ast.Return)]
    skipping = [r for r in rets if not any(cfg.dominates(k, r)
                                           for k in kern)]
    col.check(not skipping, rule, TABLE, 'Table.filter', 'kernel-dominates',
              skipping[0].stmt if skipping else kern[0].stmt,
              'every return is preceded by the kernel call',
              'a return is reachable without running the kernel: unknown '
              'ids in the selection are no longer refused and repeated or '
              'partial selections are not applied on that path')
    # outputs installed unchanged
    k = kern[0].stmt
    outs = []
    if isinstance(k, ast.Assign) and isinstance(k.targets[0],
                                                (ast.Tuple, ast.List)):
        outs = [t.id for t in k.targets[0].elts if isinstance(t, ast.Name)]
    if not outs:
        col.unknown(rule, TABLE, 'Table.filter', 'installed-unchanged', k,
                    'kernel outputs not recognised')
        return
    after = False
    rebound = []
    par = _parents(fn)

    def canonical_collapse(n):
        # `if md is not None and not any(md): md = None` - the normal form
        # of "no metadata", the only re-binding that is not a change
        if not (isinstance(n, ast.Assign) and isinstance(
                n.value, ast.Constant) and n.value.value is None):
            return False
        p = par.get(id(n))
        if not isinstance(p, ast.If) or n not in p.body:
            return False
        t = unparse(p.test, 300)
        names = {x.id for tg in n.targets for x in ast.walk(tg)
                 if isinstance(x, ast.Name)}
        return any(('not any(%s)' % nm) in t or ('all(not ' in t and nm in t)
                   for nm in names)
    for n in body_walk(fn):
        if n is k:
            after = True
            continue
        if after and canonical_collapse(n):
            continue
        if after and isinstance(n, (ast.Assign, ast.AugAssign)):
            tg = n.targets if isinstance(n, ast.Assign) else [n.target]
            for t in tg:
                for x in ast.walk(t):
                    if isinstance(x, ast.Name) and isinstance(
                            x.ctx, ast.Store) and x.id in outs:
                        rebound.append(n)
    # ... and not changed in place (nor their elements)
    MUT = {'append', 'extend', 'insert', 'pop', 'remove', 'clear', 'update',
           'setdefault', 'popitem', 'sort', 'reverse', 'fill'}
    after = False
    for n in body_walk(fn):
        if n is k:
            after = True
            continue
        if not after:
            continue
        derived = set(outs)
        if isinstance(n, ast.For) and any(
                isinstance(x, ast.Name) and x.id in outs
                for x in ast.walk(n.iter)):
            derived |= {x.id for x in ast.walk(n.target)
                        if isinstance(x, ast.Name)}
            for b in ast.walk(n):
                if isinstance(b, (ast.Delete, ast.Assign, ast.AugAssign)):
                    tg = b.targets if not isinstance(b, ast.AugAssign) \
                        else [b.target]
                    for t in tg:
                        if isinstance(t, ast.Subscript) and isinstance(
                                t.value, ast.Name) and t.value.id in derived:
                            rebound.append(b)
                if isinstance(b, ast.Call) and isinstance(
                        b.func, ast.Attribute) and b.func.attr in MUT and \
                        isinstance(b.func.value, ast.Name) and \
                        b.func.value.id in derived:
                    rebound.append(b)
        if isinstance(n, (ast.Delete, ast.Assign, ast.AugAssign)):
            tg = n.targets if not isinstance(n, ast.AugAssign) else [n.target]
            for t in tg:
                if isinstance(t, ast.Subscript) and isinstance(
                        t.value, ast.Name) and t.value.id in outs:
                    rebound.append(n)
    col.check(not rebound, rule, TABLE, 'Table.filter',
              'installed-unchanged', rebound[0] if rebound else k,
              'ids, metadata and matrix returned by the kernel are stored '
              'as they are', 'a kernel output is re-assigned before it is '
              'installed (`%s`): the filtered table no longer carries what '
              'the kernel selected'
              % (unparse(rebound[0], 80) if rebound else ''))


def _dict_literal_keys(fn, name):
    keys = set()
    for v, _ in local_assignments(fn).get(name, []):
        if isinstance(v, ast.Dict):
            keys |= {const_str(k) for k in v.keys if k is not None}
        if isinstance(v, ast.Call) and call_name(v) == 'dict':
            keys |= {kw.arg for kw in v.keywords if kw.arg}
    return keys


def rule_h5_options(repo, col):
    rule = 'TA-H5OPTS'
    LOSSY = {'scaleoffset'}
    n_sites = 0
    for q in ('Table.to_hdf5', 'general_formatter',
              'vlen_list_of_str_formatter'):
        fn = repo.func(TABLE, q)
        for n in body_walk(fn):
            if isinstance(n, ast.Call) and isinstance(
                    n.func, ast.Attribute) and \
                    n.func.attr == 'create_dataset':
                n_sites += 1
                keys = {kw.arg for kw in n.keywords if kw.arg}
                for kw in n.keywords:
                    if kw.arg is None and isinstance(kw.value, ast.Name):
                        keys |= _dict_literal_keys(fn, kw.value.id)
                bad = keys & LOSSY
                col.check(not bad, rule, TABLE, q,
                          'dataset-options@%d' % n_sites, n,
                          'no lossy filter', 'the dataset is created with '
                          '%s: the scale-offset filter keeps a fixed number '
                          'of decimal digits, so stored float values are '
                          'rounded' % sorted(bad))
    col.soft(n_sites >= 3, rule, TABLE, 'Table.to_hdf5', 'instances', None,
             '%d create_dataset sites' % n_sites,
             'create_dataset sites not found')


def rule_ensure_ascii(repo, col):
    rule = 'TA-ENCODER'
    m = repo.mod(TABLE)
    n = 0
    for node in ast.walk(m.tree):
        if isinstance(node, ast.Call) and (
                (call_name(node) or '').split('.')[-1] in (
                    'dumps', '_json_dumps', 'dump', 'partial')):
            ea = kwarg(node, 'ensure_ascii')
            if call_name(node) == 'partial' and not (
                    node.args and 'dumps' in unparse(node.args[0])):
                continue
            n += 1
            shadow = [kw.arg for kw in node.keywords
                      if kw.arg in ('default', 'skipkeys')]
            if shadow:
                fn0 = m.enclosing_function(node)
                q0 = m.qual.get(fn0, '<module>') if fn0 is not None \
                    else '<module>'
                col.bad(rule, TABLE, q0, 'encoder-kwargs', node,
                        'dumps is given %s: `default=` replaces the '
                        'encoder\'s own conversion of numpy scalars / '
                        'arrays (they are written as text), `skipkeys` '
                        'drops entries' % shadow)
            bad = ea is not None and not (isinstance(ea, ast.Constant) and
                                          ea.value is True)
            fn = m.enclosing_function(node)
            q = m.qual.get(fn, '<module>') if fn is not None else '<module>'
            col.check(not bad, rule, TABLE, q, 'ascii-output', node,
                      'ASCII-only JSON text', 'ensure_ascii is switched off: '
                      'ids and metadata containing U+2028 / U+2029 / U+0085 '
                      'are written raw and split the document for '
                      'line-based readers; non-UTF-8 handles fail')
    col.soft(n >= 1, rule, TABLE, '<module>', 'ascii-output:instances',
             None, '%d dumps sites' % n, 'no dumps site found')


def rule_tsv_id_text(repo, col):
    rule = 'TA-IDTEXT'
    fn = repo.func(TABLE, 'Table._extract_data_from_tsv')
    assigns = local_assignments(fn)
    ALLOWED_CALLS = {'strip', 'list', 'str', 'tuple', 'split', 'rstrip',
                     'lstrip'}

    def foreign_calls(e, depth=0):
        out = []
        for x in ast.walk(e):
            if isinstance(x, ast.Call):
                f = x.func
                last = f.attr if isinstance(f, ast.Attribute) else (
                    f.id if isinstance(f, ast.Name) else None)
                if last not in ALLOWED_CALLS:
                    out.append(x)
        return out
    sites = []
    for n in body_walk(fn):
        if isinstance(n, ast.Assign) and len(n.targets) == 1 and \
                dotted(n.targets[0]) in ('samp_ids', 'obs_ids'):
            sites.append((dotted(n.targets[0]), n.value, n))
        if isinstance(n, ast.Call) and isinstance(n.func, ast.Attribute) \
                and n.func.attr == 'append' and \
                dotted(n.func.value) in ('samp_ids', 'obs_ids') and n.args:
            sites.append((dotted(n.func.value), n.args[0], n))
    k = 0
    for name, val, node in sites:
        if isinstance(val, ast.List) and not val.elts:
            continue
        k += 1
        fc = foreign_calls(val)
        col.check(not fc, rule, TABLE, 'Table._extract_data_from_tsv',
                  'id-text:%s#%d' % (name, k), node,
                  'ids are taken as they stand in the file',
                  'id text passes through `%s` on import: ids the writer '
                  'emitted verbatim come back altered'
                  % (unparse(fc[0], 60) if fc else ''))
    col.soft(k >= 2, rule, TABLE, 'Table._extract_data_from_tsv',
             'instances', fn, '%d id stores' % k, 'id stores not found')


def rule_group_md_attr(repo, col):
    rule = 'AG-SPEC'
    fn = repo.func(TABLE, 'Table.to_hdf5')
    par = _parents(fn)

    def loop_of(n):
        cur = n
        while id(cur) in par:
            cur = par[id(cur)]
            if isinstance(cur, (ast.For, ast.While)):
                return cur
        return None
    found = 0
    for n in body_walk(fn):
        if isinstance(n, ast.Assign) and isinstance(n.value, ast.Call) and \
                isinstance(n.value.func, ast.Attribute) and \
                n.value.func.attr == 'create_dataset' and n.value.args and \
                'group-metadata' in unparse(n.value.args[0]) and \
                isinstance(n.targets[0], ast.Name):
            var = n.targets[0].id
            found += 1
            stores = [s for s in body_walk(fn) if isinstance(s, ast.Assign)
                      and isinstance(s.targets[0], ast.Subscript) and
                      dotted(s.targets[0].value) == '%s.attrs' % var and
                      const_str(s.targets[0].slice) == 'data_type']
            ok = bool(stores) and all(loop_of(s) is loop_of(n)
                                      for s in stores)
            col.check(ok, rule, TABLE, 'Table.to_hdf5',
                      'group-metadata:data_type', stores[0] if stores else n,
                      'each group-metadata dataset gets its data_type in '
                      'the iteration that creates it',
                      'the data_type attribute is not set in the iteration '
                      'that creates the dataset: with several group-metadata '
                      'entries only one of them carries the attribute the '
                      'format requires')
    col.soft(found >= 1, rule, TABLE, 'Table.to_hdf5',
             'group-metadata:instances', fn, '%d sites' % found,
             'group-metadata dataset creation not found')


def rule_copy_shares_nothing(repo, col):
    rule = 'EF-FRESH'
    fn = repo.func(TABLE, 'Table.copy')
    ctors = [n for n in body_walk(fn) if isinstance(n, ast.Call) and (
        (call_name(n) or '').endswith('__class__') or
        call_name(n) in ('Table', 'cls'))]
    if not ctors:
        col.unknown(rule, TABLE, 'Table.copy', 'shares-nothing', fn,
                    'constructor call not found')
        return
    c = ctors[0]
    IMMUTABLE = {'table_id', 'type', 'create_date', 'generated_by',
                 'format_version', 'shape', 'dtype'}
    assigns = local_assignments(fn)

    def fresh(e, depth=0):
        if isinstance(e, ast.Constant):
            return True
        if isinstance(e, ast.Name) and e.id in assigns and depth < 3:
            return all(v is not None and fresh(v, depth + 1)
                       for v, _ in assigns[e.id])
        if isinstance(e, ast.Attribute) and dotted(e.value) == 'self' and \
                e.attr in IMMUTABLE:
            return True
        if isinstance(e, ast.Call):
            cn = call_name(e) or ''
            if cn in ('deepcopy', 'copy.deepcopy'):
                return True
            if isinstance(e.func, ast.Attribute) and e.func.attr in (
                    'copy', 'deepcopy', 'astype', 'tolist'):
                return True
        if isinstance(e, ast.IfExp):
            return fresh(e.body, depth) and fresh(e.orelse, depth)
        return False
    # the matrix slot is covered by EF-FRESH proper (fresh at the call site
    # *or* copied by the constructor's astype)
    args = list(c.args[1:]) + [kw.value for kw in c.keywords
                               if kw.arg and kw.arg != 'data']
    shared = [a for a in args if not fresh(a)]
    col.check(not shared, rule, TABLE, 'Table.copy', 'shares-nothing',
              shared[0] if shared else c,
              'every constructor argument of copy() is copied or immutable',
              '`%s` is handed to the copy without being copied: a later '
              'in-place change to the copy shows through in the original'
              % (unparse(shared[0], 70) if shared else ''))


def rule_collapse_partition_defaults(repo, col):
    rule = 'AX-FWD'
    fn = repo.func(TABLE, 'Table.collapse')
    calls = [n for n in body_walk(fn) if isinstance(n, ast.Call) and
             dotted(n.func) == 'self.partition']
    if not calls:
        col.unknown(rule, TABLE, 'Table.collapse', 'partition-defaults', fn,
                    'partition call not found')
        return
    for n in calls:
        bad = [kw.arg for kw in n.keywords
               if kw.arg in ('ignore_none', 'remove_empty') and not (
                   isinstance(kw.value, ast.Constant) and
                   kw.value.value is False)]
        if len(n.args) > 2:
            bad.append('positional flags')
        col.check(not bad, rule, TABLE, 'Table.collapse',
                  'partition-defaults', n,
                  'collapse partitions every vector',
                  'collapse calls partition with %s: vectors labelled None '
                  '(or empty vectors) are dropped from the collapsed table '
                  'and the other axis\' totals are not conserved' % bad)


def rule_param_kept(repo, col):
    rule = 'TA-PARAMKEEP'
    for rel, q in ((TABLE, 'Table.from_hdf5'), (PARSE, 'parse_biom_table')):
        fn = repo.func(rel, q)
        ps = {a.arg for a in fn.args.args}
        tested = set()
        for n in ast.walk(fn):
            if isinstance(n, ast.Compare) and isinstance(n.left, ast.Name) \
                    and n.left.id in ps and isinstance(
                        n.ops[0], (ast.Is, ast.IsNot)) and isinstance(
                        n.comparators[0], ast.Constant) and \
                    n.comparators[0].value is None:
                tested.add(n.left.id)
        for p in sorted(tested):
            rebinds = [n for n in ast.walk(fn) if isinstance(n, ast.Assign)
                       and any(isinstance(t, ast.Name) and t.id == p
                               for t in n.targets) and isinstance(
                           n.value, ast.Constant) and n.value.value is None]
            col.check(not rebinds, rule, rel, q, 'kept:%s' % p,
                      rebinds[0] if rebinds else fn,
                      '`%s` keeps the caller\'s value' % p,
                      '`%s` is re-bound to None although later steps test '
                      'it for None (the clean-up of vectors emptied by the '
                      'subsetting runs only when ids were requested)' % p)


def rule_numeric_position_order(repo, col):
    rule = 'OR-FILEORDER'
    for q in ('_direct_slice_data_sparse_obs',
              '_direct_slice_data_sparse_samp'):
        if not repo.has_func(PARSE, q):
            continue
        fn = repo.func(PARSE, q)
        srt = [n for n in ast.walk(fn) if isinstance(n, ast.Call) and
               call_name(n) == 'sorted' and n.args]
        for n in srt:
            a = n.args[0]
            texty = any(isinstance(x, ast.Call) and (
                call_name(x) in ('str', 'map') and 'str' in unparse(x))
                for x in ast.walk(a)) or (
                    kwarg(n, 'key') is not None and
                    'str' in unparse(kwarg(n, 'key')))
            col.check(not texty, rule, PARSE, q, 'numeric-order', n,
                      'positions are sorted as numbers',
                      'the kept positions are sorted as text (`%s`): with '
                      'more than ten entries position 10 sorts before 2 and '
                      'the renumbered data no longer matches the rows / '
                      'columns records' % unparse(n, 70))


def rule_validator_types(repo, col):
    rule = 'AG-VALID'
    fn = repo.func(VALID, 'TableValidator._is_int')
    txt = unparse(fn, 2000)
    uses_integral = any(isinstance(n, ast.Call) and call_name(n) ==
                        'isinstance' and len(n.args) == 2 and
                        'Integral' in unparse(n.args[1]) or
                        isinstance(n, ast.Call) and call_name(n) ==
                        'isinstance' and len(n.args) == 2 and
                        unparse(n.args[1]) in ('int', '(int,)')
                        for n in ast.walk(fn))
    excludes_bool = 'bool' in txt
    col.check(not uses_integral or excludes_bool, rule, VALID,
              'TableValidator._is_int', 'int-not-bool', fn,
              'the integer test does not accept booleans',
              'isinstance(x, Integral / int) is true for booleans: a JSON '
              'document with `true` in an index or shape position is '
              'reported valid')
    # ids decoded as utf8 wherever the validator decodes
    n_dec = 0
    for rel, q, f in repo.all_functions():
        if rel != VALID or isinstance(f, ast.Lambda):
            continue
        for n in body_walk(f):
            if isinstance(n, ast.Call) and isinstance(
                    n.func, ast.Attribute) and n.func.attr == 'decode':
                n_dec += 1
                codec = const_str(n.args[0]) if n.args else (
                    const_str(kwarg(n, 'encoding')) if kwarg(
                        n, 'encoding') is not None else 'utf-8')
                ok = (codec or '').lower().replace('-', '').replace(
                    '_', '') == 'utf8'
                col.check(ok, rule, VALID, q, 'decode-codec', n,
                          'decoded as UTF-8',
                          'bytes written by the library as UTF-8 are '
                          'decoded as %r: a file with a non-ASCII id cannot '
                          'be validated' % codec)
    col.ok(rule, VALID, '<module>', 'decode-codec:scan', None,
           '%d decode sites' % n_dec)


def rule_is_empty_definition(repo, col):
    rule = 'SB-EMPTYDEF'
    fn = repo.func(TABLE, 'Table.is_empty')
    reads_ids = any(isinstance(n, ast.Call) and isinstance(
        n.func, ast.Attribute) and n.func.attr == 'ids' or
        isinstance(n, ast.Attribute) and n.attr in (
            '_sample_ids', '_observation_ids')
        for n in ast.walk(fn))
    reads_matrix = any(isinstance(n, ast.Attribute) and n.attr in (
        'shape', '_data', 'matrix_data', 'nnz') for n in ast.walk(fn))
    col.check(reads_ids and not reads_matrix, rule, TABLE, 'Table.is_empty',
              'definition', fn, 'emptiness is decided by the id arrays',
              'emptiness is decided from the matrix: the constructor\'s '
              'error scan asks is_empty first, so a matrix with an empty '
              'dimension paired with non-empty ids is classed "empty" '
              '(ignored by default) before the size checks see it')


def rule_uc_increments(repo, col):
    rule = 'SB-UCCOUNT'
    fn = repo.func(PARSE, 'parse_uc')
    plain = [n for n in body_walk(fn) if isinstance(n, ast.Assign) and
             isinstance(n.targets[0], ast.Subscript) and
             dotted(n.targets[0].value) == 'data']
    aug = [n for n in body_walk(fn) if isinstance(n, ast.AugAssign) and
           isinstance(n.target, ast.Subscript) and
           dotted(n.target.value) == 'data']
    col.check(not plain and bool(aug), rule, PARSE, 'parse_uc',
              'increment-only', plain[0] if plain else fn,
              'cells are only incremented',
              'a cell is overwritten (`%s`): records of the same pair seen '
              'earlier are lost' % (unparse(plain[0], 60) if plain else ''))


def rule_bincount_minlength(repo, col, rels=('biom/util.py', TABLE)):
    rule = 'AX-SHAPE'
    n = 0
    for rel, q, fn in repo.all_functions():
        if rel not in rels or isinstance(fn, ast.Lambda):
            continue
        for c in body_walk(fn):
            if isinstance(c, ast.Call) and (call_name(c) or '').split(
                    '.')[-1] == 'bincount':
                n += 1
                col.check(kwarg(c, 'minlength') is not None, rule, rel, q,
                          'bincount-minlength', c, 'minlength given',
                          'np.bincount without minlength is as long as the '
                          'largest position that occurs: trailing all-zero '
                          'vectors are missing from the result and whatever '
                          'is zipped with the ids is cut short')
    col.ok(rule, 'biom', '<package>', 'bincount-minlength:scan', None,
           '%d bincount sites' % n)


def rule_element_type(repo, col):
    rule = 'TA-ELEMTYPE'
    fn = repo.func(TABLE, 'Table.to_json')
    bad = [n for n in ast.walk(fn) if isinstance(n, ast.Call) and isinstance(
        n.func, ast.Attribute) and n.func.attr == 'is_integer']
    col.check(not bad, rule, TABLE, 'Table.to_json', 'element-type',
              bad[0] if bad else fn,
              'matrix_element_type follows the element\'s type',
              'matrix_element_type is derived from the value of one '
              'element (`%s`): a table with fractional values elsewhere is '
              'declared "int" and readers that honour the declaration '
              'truncate' % (unparse(bad[0], 60) if bad else ''))


def rule_disjoint_accumulates(repo, col):
    """OR-DISJOINT (accumulation): the id set each operand is tested against
    grows over all earlier operands - inside the loop it is only updated,
    never re-bound."""
    rule = 'OR-DISJOINT'
    fn = repo.func(TABLE, 'Table.concat')
    tests = [n for n in body_walk(fn) if isinstance(n, ast.Call) and
             isinstance(n.func, ast.Attribute) and
             n.func.attr == 'isdisjoint' and
             isinstance(n.func.value, ast.Name)]
    if not tests:
        col.unknown(rule, TABLE, 'Table.concat', 'accumulated', fn,
                    'isdisjoint test not found')
        return
    par = _parents(fn)
    for t in tests:
        name = t.func.value.id
        loop = None
        cur = t
        while id(cur) in par:
            cur = par[id(cur)]
            if isinstance(cur, ast.For):
                loop = cur
                break
        if loop is None:
            col.unknown(rule, TABLE, 'Table.concat', 'accumulated', t,
                        'the test is not in a loop over the operands')
            continue
        rebinds = [n for n in ast.walk(loop) if isinstance(n, ast.Assign) and
                   any(isinstance(x, ast.Name) and x.id == name
                       for x in n.targets)]
        grows = [n for n in ast.walk(loop) if (
            isinstance(n, ast.Call) and isinstance(n.func, ast.Attribute) and
            n.func.attr in ('update', 'add') and
            dotted(n.func.value) == name) or (
            isinstance(n, ast.AugAssign) and dotted(n.target) == name)]
        col.check(bool(grows) and not rebinds, rule, TABLE, 'Table.concat',
                  'accumulated', rebinds[0] if rebinds else t,
                  'the set of ids seen so far only grows',
                  'the set the operands are tested against is re-bound '
                  'inside the loop (`%s`): an operand is only compared with '
                  'its predecessor and ids shared by non-neighbouring '
                  'operands are accepted'
                  % (unparse(rebinds[0], 60) if rebinds else ''))


def rule_update_ids_from_original(repo, col):
    """OR-COPERM (renaming): the new id of a position is computed from the
    original id of that position, never from the array being rewritten."""
    rule = 'OR-COPERM'
    fn = repo.func(TABLE, 'Table.update_ids')
    bad = []
    n_st = 0
    for n in body_walk(fn):
        if isinstance(n, ast.Assign) and isinstance(n.targets[0],
                                                    ast.Subscript):
            t = n.targets[0]
            arr = dotted(t.value)
            if not arr:
                continue
            n_st += 1
            if any(isinstance(x, ast.Name) and x.id == arr
                   for x in ast.walk(t.slice)):
                bad.append(n)
    col.check(not bad, rule, TABLE, 'Table.update_ids', 'from-original',
              bad[0] if bad else fn,
              'positions are rewritten from the original ids',
              '`%s` selects positions by the current content of the array '
              'being rewritten: when the mapping is applied entry by entry '
              'a new id that equals a not-yet-renamed old id is renamed '
              'again (swaps and rotations collapse into duplicates)'
              % (unparse(bad[0], 70) if bad else ''))


def rule_merge_md_per_iteration(repo, col):
    """OR-FRESHVAR: the two metadata values handed to a merge callback are
    assigned on every path of the iteration that calls it (nothing is carried
    over from the previous id)."""
    rule = 'OR-FRESHVAR'
    fn = repo.func(TABLE, 'Table.merge')
    cfg = CFG(fn)
    par = _parents(fn)
    n_calls = 0
    for n in body_walk(fn):
        if not (isinstance(n, ast.Call) and isinstance(n.func, ast.Name) and
                n.func.id in ('sample_metadata_f',
                              'observation_metadata_f')):
            continue
        loop = None
        cur = n
        while id(cur) in par:
            cur = par[id(cur)]
            if isinstance(cur, ast.For):
                loop = cur
                break
        if loop is None:
            continue
        n_calls += 1
        for a in n.args:
            if not isinstance(a, ast.Name):
                continue
            inloop = [s for s in ast.walk(loop) if isinstance(s, ast.Assign)
                      and any(isinstance(x, ast.Name) and x.id == a.id
                              for t in s.targets for x in ast.walk(t))]
            # every path from the loop head to the call assigns the name
            head = [c for c in cfg.stmt_nodes() if getattr(c, 'stmt', None)
                    is loop]
            call_nodes = [c for c in cfg.stmt_nodes() if c.kind == 'stmt' and
                          any(x is n for x in ast.walk(c.stmt)) and
                          not isinstance(c.stmt, (ast.For, ast.If,
                                                  ast.While))]
            assign_nodes = {c for c in cfg.stmt_nodes() if c.kind == 'stmt'
                            and c.stmt in inloop}
            if not head or not call_nodes:
                col.unknown(rule, TABLE, 'Table.merge', 'arg:%s' % a.id, n,
                            'loop head / call not located in the CFG')
                continue
            leak = bool(cfg.path_avoiding(head[0], call_nodes[0],
                                          assign_nodes))
            col.check(not leak and bool(inloop), rule, TABLE, 'Table.merge',
                      'arg:%s' % a.id, n,
                      '`%s` is assigned on every path of the iteration'
                      % a.id,
                      'there is a path through the iteration on which `%s` '
                      'is not assigned before the callback is called: the '
                      'value left over from the previous id is passed '
                      'instead of None' % a.id)
    col.soft(n_calls >= 2, rule, TABLE, 'Table.merge', 'instances', fn,
             '%d callback calls in loops' % n_calls,
             'metadata callback calls not found')


def rule_small_shortcuts(repo, col):
    """Three construct-level necessary conditions: the unhashable-label
    conversion of partition keeps the label's order; by-id subsampling
    clamps n to the number of ids; the rankdata callback returns the ranks
    for every vector."""
    # partition
    fn = repo.func(TABLE, 'Table.partition')
    for n in body_walk(fn):
        if isinstance(n, ast.Assign) and dotted(n.targets[0]) == 'part' and \
                isinstance(n.value, ast.Call) and \
                call_name(n.value) == 'tuple':
            col.check(not any(isinstance(x, ast.Call) and call_name(x) in (
                'sorted', 'set', 'frozenset', 'reversed')
                for x in ast.walk(n.value)), 'SB-LABEL', TABLE,
                'Table.partition', 'label-kept', n,
                'an unhashable label is only made hashable',
                'the label is reordered / deduplicated when made hashable '
                '(`%s`): list labels that are permutations of each other '
                'fall into one part and parts come back under another '
                'label' % unparse(n.value, 60))
    # by-id subsample
    fn = repo.func(TABLE, 'Table.subsample')
    for n in body_walk(fn):
        if isinstance(n, ast.Call) and isinstance(n.func, ast.Attribute) and \
                n.func.attr == 'choice' and (
                    kwarg(n, 'size') is not None or len(n.args) > 1):
            sz = kwarg(n, 'size') or n.args[1]
            clamp = any(isinstance(x, ast.Call) and call_name(x) == 'min'
                        for x in ast.walk(sz))
            rep = kwarg(n, 'replace')
            col.check(clamp or not (isinstance(rep, ast.Constant) and
                                    rep.value is False), 'TA-RNG', TABLE,
                      'Table.subsample', 'by-id-clamp', n,
                      'n is clamped to the ids available',
                      'choice(size=n, replace=False) raises when n exceeds '
                      'the number of ids; by-id subsampling is documented '
                      'to return every id in that case')
    # rankdata callback
    fn = repo.func(TABLE, 'Table.rankdata')
    inner = [x for x in ast.walk(fn) if isinstance(x, ast.FunctionDef) and
             x is not fn]
    for f in inner:
        ps = [a.arg for a in f.args.args]
        rets = [r for r in ast.walk(f) if isinstance(r, ast.Return)]
        raw = [r for r in rets if isinstance(r.value, ast.Name) and
               ps and r.value.id == ps[0]]
        col.check(not raw, 'SB-RANK', TABLE, 'Table.rankdata',
                  'ranks-always', raw[0] if raw else f,
                  'every vector is ranked',
                  'the callback returns its input unranked on some path: '
                  'such vectors keep their raw values instead of ranks')


def rule_profile_confined_raise(repo, col):
    """OR-PROFILE: in update_ids the direct duplicate-id refusal is confined
    to the in-place path (where nothing can be rolled back); otherwise the
    configured reaction decides, through errcheck."""
    rule = 'OR-PROFILE'
    fn = repo.func(TABLE, 'Table.update_ids')
    par = _parents(fn)
    n_r = 0
    for n in body_walk(fn):
        if isinstance(n, ast.Raise) and 'uplicate' in unparse(n, 200):
            n_r += 1
            cur, under = n, False
            while id(cur) in par:
                cur = par[id(cur)]
                if isinstance(cur, ast.If) and any(
                        isinstance(x, ast.Name) and x.id == 'inplace'
                        for x in ast.walk(cur.test)):
                    under = True
            col.check(under, rule, TABLE, 'Table.update_ids',
                      'direct-refusal', n,
                      'the direct refusal is limited to inplace=True',
                      'duplicate ids are refused directly on every path: '
                      'with inplace=False the configured reaction '
                      '(ignore / warn / print / call) is never consulted')
    col.ok(rule, TABLE, 'Table.update_ids', 'direct-refusal:scan', fn,
           '%d direct duplicate refusals' % n_r)


for _f, _k in ((rule_disjoint_accumulates, 'OR-DISJOINT'),
               (rule_update_ids_from_original, 'OR-COPERM'),
               (rule_merge_md_per_iteration, 'OR-FRESHVAR'),
               (rule_profile_confined_raise, 'OR-PROFILE')):
    RULE_TEXT.setdefault(_k, ' '.join(_f.__doc__.split()))
for _k in ('SB-LABEL', 'TA-RNG', 'SB-RANK'):
    RULE_TEXT.setdefault(_k, ' '.join(rule_small_shortcuts.__doc__.split()))


def rule_metadata_canonical(repo, col):
    """SB-MDCANON: "no metadata" has one representation. Every value
    installed in _sample_metadata / _observation_metadata is None, or has
    passed a collapse of "all entries empty" to None (the constructor's and
    del_metadata's normal form); otherwise a table differs from its own copy
    (which the constructor normalises)."""
    rule = 'SB-MDCANON'
    cls = repo.cls(TABLE, 'Table')
    FIELDS = ('_sample_metadata', '_observation_metadata')

    def collapse_test(t):
        """An `all entries are empty` test."""
        s = unparse(t, 300)
        if 'not any(' in s or 'all(not ' in s:
            return True
        if '== {True' in s and ('not ' in s or 'empties' in s):
            return True
        return False

    def collapses(fn_or_body, name=None):
        """Does this body set `name` (or return) None under a collapse
        test?"""
        for n in ast.walk(fn_or_body):
            if isinstance(n, ast.If):
                tests = [n.test]
                # nested: if md is not None: if not any(md): return None
                if collapse_test(n.test) or any(
                        collapse_test(x) for x in ast.walk(n.test)
                        if isinstance(x, ast.expr)):
                    for b in ast.walk(n):
                        if isinstance(b, ast.Return) and isinstance(
                                b.value, ast.Constant) and \
                                b.value.value is None and name is None:
                            return True
                        if isinstance(b, ast.Assign) and isinstance(
                                b.value, ast.Constant) and \
                                b.value.value is None and name and any(
                                    dotted(t) == name or (
                                        isinstance(t, ast.Attribute) and
                                        t.attr == name)
                                    for t in b.targets):
                            return True
        return False
    n_st = 0
    for fn in cls.body:
        if not isinstance(fn, ast.FunctionDef):
            continue
        q = 'Table.' + fn.name
        nested = {x.name: x for x in ast.walk(fn)
                  if isinstance(x, ast.FunctionDef) and x is not fn}
        # local sets computed from `not md` comprehensions (del_metadata,
        # __init__) count as collapse tests through their name
        for st in body_walk(fn):
            if not (isinstance(st, ast.Assign) and any(
                    isinstance(t, ast.Attribute) and t.attr in FIELDS
                    for t in st.targets)):
                continue
            n_st += 1
            fld = [t.attr for t in st.targets
                   if isinstance(t, ast.Attribute)][0]
            v = st.value
            role = 'store:%s' % fld
            if isinstance(v, ast.Constant) and v.value is None:
                col.ok(rule, TABLE, q, role, st, 'None')
                continue
            ok = False
            why = ''
            if isinstance(v, ast.Call) and isinstance(v.func, ast.Name) and \
                    v.func.id in nested and collapses(nested[v.func.id]):
                ok, why = True, 'normalised by %s' % v.func.id
            elif isinstance(v, ast.Name) and collapses(fn, v.id):
                ok, why = True, 'collapsed to None when all entries are ' \
                    'empty before it is stored'
            else:
                # the store sits in the else-branch of a collapse test
                # (constructor) or the method normalises afterwards
                par = _parents(fn)
                cur = st
                while id(cur) in par and not ok:
                    p = par[id(cur)]
                    if isinstance(p, ast.If) and cur in p.orelse and (
                            collapse_test(p.test)):
                        ok, why = True, 'stored only when some entry is ' \
                            'not empty'
                    cur = p
                if not ok:
                    later = [c for c in body_walk(fn) if isinstance(
                        c, ast.Call) and dotted(c.func) in (
                        'self._cast_metadata', 'table._cast_metadata') and
                        c.lineno > st.lineno]
                    if later and repo.has_func(TABLE,
                                               'Table._cast_metadata'):
                        cm = repo.func(TABLE, 'Table._cast_metadata')
                        inner = [x for x in ast.walk(cm) if isinstance(
                            x, ast.FunctionDef) and x is not cm]
                        if any(collapses(x) for x in inner):
                            ok, why = True, 'normalised by the ' \
                                '_cast_metadata() that follows'
            col.check(ok, rule, TABLE, q, role, st, why,
                      'metadata is installed without the "all entries '
                      'empty => None" normalisation: a table whose '
                      'remaining entries are all empty keeps a tuple of '
                      'empty mappings, while its copy (built by the '
                      'constructor) has None, so `t == t.copy()` is False '
                      'and the two export differently')
    col.soft(n_st >= 6, rule, TABLE, '<Table>', 'instances', None,
             '%d metadata stores' % n_st, 'metadata stores not found')


RULE_TEXT['SB-MDCANON'] = ' '.join(rule_metadata_canonical.__doc__.split())
