"""The axis-role abstract interpreter.

Every axis-parametrised function is interpreted once per concrete value of
its ``axis`` parameter (and of other mode parameters), so guards on the
parameter are decided and every variable has one role per run.  Values are
abstracted to *kinds* carrying the axis they belong to ('O' observation /
'S' sample), the table that owns them and, for matrices, orientation.

Sinks (constructor slots, kernel argument tuples, field stores, id-API
calls, matrix subscripts / stacks / shape tuples, index/vector pairs) are
judged where all participants are resolved; anything unresolved makes the
sink *unknown*, never a violation.
"""
import ast

from .astutil import (call_name, const_str, dotted, kwarg, param_default,
                      param_names, target_names, unparse)

O, S = 'O', 'S'
AXNAME = {'observation': O, 'sample': S}
NAMEAX = {O: 'observation', S: 'sample'}


def inv(a):
    return S if a == O else (O if a == S else None)


def tlay(own, ax):
    """Order symbol of a table's axis (None when not resolved)."""
    if own and ax in (O, S) and not own.endswith("'"):
        return ('tbl', own, ax)
    return None


def vlay(v, own, ax):
    """Order of a table value along an axis: an established layout on the
    value (sort_order result, guard refinement) wins over the opaque symbol
    of the owner."""
    if v is not None and v.k == 'table' and isinstance(v.lay, tuple) and \
            len(v.lay) == 2 and ax in (O, S) and \
            v.lay[0 if ax == O else 1] is not None:
        return v.lay[0 if ax == O else 1]
    return tlay(own, ax)


def _tbl_lay(v, own):
    return (vlay(v, own, O), vlay(v, own, S))


INT_WORDS = ('int', 'uint', 'i1', 'i2', 'i4', 'i8', 'u1', 'u2', 'u4', 'u8',
             '<i', '<u', 'longlong', 'intp', 'intc')
DT_NAMES = {'int': 'int', 'np.int8': 'int', 'np.int16': 'int',
            'np.int32': 'int', 'np.int64': 'int', 'np.intp': 'int',
            'np.intc': 'int', 'np.int_': 'int', 'np.uint8': 'int',
            'np.uint16': 'int', 'np.uint32': 'int', 'np.uint64': 'int',
            'np.integer': 'int', 'np.longlong': 'int',
            'float': 'float', 'np.float64': 'float', 'np.double': 'float',
            'np.float_': 'float', 'np.floating': 'float',
            'np.longdouble': 'float',
            'np.float32': 'narrow', 'np.float16': 'narrow',
            'np.half': 'narrow', 'np.single': 'narrow'}
for _n in ('np.int8', 'np.int16', 'np.uint8', 'np.uint16'):
    DT_NAMES[_n] = 'tiny'


def dtc(v):
    """dtype class of an abstract value: 'int' | 'float' | 'narrow' |
    'mixed' | None."""
    if v is None:
        return None
    if v.k == 'dtype':
        return v.c
    if v.k == 'const' and isinstance(v.c, str):
        w = v.c.lower()
        if w.startswith(INT_WORDS):
            return 'int'
        if w in ('float', 'float64', 'f8', 'd', '<f8', 'double'):
            return 'float'
        if w in ('float32', 'float16', 'f4', 'f2', '<f4', 'single', 'half'):
            return 'narrow'
    return None


def _join_lay(a, b):
    if a == b:
        return a
    if a == ('empty',):
        return b
    if b == ('empty',):
        return a
    if a is None or b is None:
        return None
    if a[0] == 'tbl' or b[0] == 'tbl':
        return None         # "whatever order that table has": not comparable
    if a and a[0] == 'conflict':
        return a
    if b and b[0] == 'conflict':
        return b
    return ('conflict', a, b)


class V:
    __slots__ = ('k', 'ax', 'own', 'maj', 'flip', 'elts', 'c', 'el', 'node',
                 'fresh', 'lay', 'ref')

    def __init__(self, k, ax=None, own=None, maj=None, flip=False, elts=None,
                 c=None, el=None, node=None, fresh=False, lay=None,
                 ref=None):
        self.lay = lay      # order in which the entries are laid out
        self.ref = ref      # (positions) the order the values refer to
        self.k = k
        self.ax = ax
        self.own = own
        self.maj = maj
        self.flip = flip
        self.elts = elts
        self.c = c
        self.el = el
        self.node = node
        self.fresh = fresh

    def key(self):
        return (self.k, self.ax, self.own, self.maj, self.flip,
                tuple(e.key() for e in self.elts) if self.elts else None,
                repr(self.c), self.el.key() if self.el else None,
                self.lay, self.ref)

    def __eq__(self, o):
        return isinstance(o, V) and self.key() == o.key()

    def __hash__(self):
        return hash(self.key())

    def __repr__(self):
        bits = [self.k]
        if self.ax:
            bits.append(self.ax)
        if self.own:
            bits.append('@' + self.own)
        if self.k == 'matrix':
            bits.append('maj=%s%s' % (self.maj, ' T' if self.flip else ''))
        if self.k == 'const':
            bits.append(repr(self.c))
        if self.elts:
            bits.append('(' + ', '.join(map(repr, self.elts)) + ')')
        if self.el is not None:
            bits.append('[' + repr(self.el) + ']')
        return '<' + ' '.join(bits) + '>'

    def with_(self, **kw):
        d = {s: getattr(self, s) for s in self.__slots__}
        d.update(kw)
        return V(**d)


TOP = V('top')
NONE = V('none')


def join(a, b):
    if a == b:
        return a
    if a is None:
        return b
    if b is None:
        return a
    if a.k == 'none':
        return b
    if b.k == 'none':
        return a
    if a.k == b.k and a.k in ('ids', 'md', 'index') and a.ax and b.ax \
            and a.ax != b.ax:
        return V(a.k, ax=None, c=('conflict', a.ax, b.ax))
    if a.k == b.k == 'method' and a.c != b.c and a.c and b.c and \
            a.own == b.own:
        ca = a.c if isinstance(a.c, tuple) else (a.c,)
        cb = b.c if isinstance(b.c, tuple) else (b.c,)
        return V('method', own=a.own, c=tuple(sorted(set(ca) | set(cb))),
                 node=a.node)
    if dtc(a) and dtc(b):
        return V('dtype', c=dtc(a) if dtc(a) == dtc(b) else 'mixed')
    if a.k == b.k == 'dict' and (a.ax or b.ax) and not (
            a.ax and b.ax and a.ax != b.ax):
        # "may hold keys of this axis" survives a join with "no keys yet"
        return V('dict', ax=a.ax or b.ax, el=a.el if a.el == b.el else None,
                 c=a.c if a.c == b.c else None)
    if a.k == b.k and a.k in ('table', 'matrix') and (
            isinstance(a.lay, tuple) and len(a.lay) == 2 or
            isinstance(b.lay, tuple) and len(b.lay) == 2):
        la = _tbl_lay(a, a.own) if a.k == 'table' else (
            a.lay if isinstance(a.lay, tuple) and len(a.lay) == 2
            else (None, None))
        lb = _tbl_lay(b, b.own) if b.k == 'table' else (
            b.lay if isinstance(b.lay, tuple) and len(b.lay) == 2
            else (None, None))
        lay = (_join_lay(la[0], lb[0]), _join_lay(la[1], lb[1]))
        return V(a.k, ax=a.ax if a.ax == b.ax else None,
                 own=a.own if a.own == b.own else None,
                 maj=a.maj if a.maj == b.maj else None,
                 flip=a.flip if a.flip == b.flip else False,
                 c=(a.c if a.c == b.c else None) if a.flip == b.flip and
                 'unoriented' not in (a.c, b.c) else 'unoriented',
                 lay=lay if any(lay) else None)
    if a.k == b.k and a.k not in ('const', 'tuple', 'list', 'recdict'):
        return V(a.k, ax=a.ax if a.ax == b.ax else None,
                 own=a.own if a.own == b.own else None,
                 maj=a.maj if a.maj == b.maj else None,
                 flip=a.flip if a.flip == b.flip else False,
                 c='unoriented' if a.k == 'matrix' and (
                     a.flip != b.flip or 'unoriented' in (a.c, b.c))
                 else None,
                 lay=a.lay if a.lay == b.lay else None,
                 ref=a.ref if a.ref == b.ref else None)
    if a.k == b.k == 'tuple' and a.elts and b.elts and \
            len(a.elts) == len(b.elts):
        return V('tuple', elts=tuple(join(x, y)
                                     for x, y in zip(a.elts, b.elts)))
    if a.k == b.k == 'list':
        if a.el is None:
            el = b.el
        elif b.el is None:
            el = a.el
        else:
            el = join(a.el, b.el)
        if a.el is None and a.ax is None:
            ax = b.ax
        elif b.el is None and b.ax is None:
            ax = a.ax
        else:
            ax = a.ax if a.ax == b.ax else None
        return V('list', el=el, ax=ax,
                 lay=a.lay if a.lay == b.lay else (
                     b.lay if a.el is None and a.lay is None else (
                         a.lay if b.el is None and b.lay is None else None)))
    pair = {a.k, b.k}
    if pair == {'recdict', 'dict'}:
        return a if a.k == 'recdict' else b
    if a.k == b.k == 'recdict' and a.elts and b.elts and \
            len(a.elts) == len(b.elts):
        return V('recdict', elts=tuple(join(x, y)
                                       for x, y in zip(a.elts, b.elts)))
    if pair == {'md', 'md1'} and a.ax == b.ax and a.ax:
        return V('md', ax=a.ax, own=a.own if a.own == b.own else None)
    if pair == {'list', 'md'} and a.ax == b.ax and a.ax:
        return V('md', ax=a.ax, own=a.own if a.k == 'md' else b.own)
    if pair == {'list', 'ids'} and a.ax == b.ax and a.ax:
        return V('ids', ax=a.ax, own=a.own if a.k == 'ids' else b.own)
    return TOP


TABLE_RETURNING = {'copy', 'filter', 'sort_order', 'sort', 'subsample',
                   'remove_empty', 'head', 'norm', 'pa', 'transform',
                   'rankdata', 'update_ids', 'collapse', 'merge', 'concat',
                   'align_to', '_fast_merge'}
TABLE_PARAM_NAMES = {'other', 'table', 't', 'tab', 'result', 'tmp_table',
                     'self'}


def _roles():
    return {
        'Table.sort_order': {'order': lambda P: V('ids', ax=P,
                                                  lay=('loc', 'order'))},
        'Table.concat': {'others': lambda P: V('list',
                                               el=V('table', own=None))},
        'Table._fast_merge': {'others': lambda P: V(
            'list', el=V('table', own=None))},
        'Table._index_ids': {
            'observation_index': lambda P: V('index', ax=O, c='param'),
            'sample_index': lambda P: V('index', ax=S, c='param')},
        'Table.__init__': {
            'observation_ids': lambda P: V('ids', ax=O),
            'sample_ids': lambda P: V('ids', ax=S),
            'observation_metadata': lambda P: V('md', ax=O),
            'sample_metadata': lambda P: V('md', ax=S),
            'observation_index': lambda P: V('index', ax=O, c='param'),
            'sample_index': lambda P: V('index', ax=S, c='param'),
            'observation_group_metadata': lambda P: V('gmd', ax=O),
            'sample_group_metadata': lambda P: V('gmd', ax=S)},
        'Table.from_hdf5': {'h5grp': lambda P: V('h5')},
        'Table.from_json': {'json_table': lambda P: V('jsondoc')},
        'Table.update_ids': {},
        'Table.collapse': {'min_group_size': lambda P: V('len', ax=P,
                                                         c='param')},
        'Table.head': {'n': lambda P: V('len', ax=O, c='param'),
                       'm': lambda P: V('len', ax=S, c='param')},
        'Table.align_to': {'other': lambda P: V('table', own='other')},
    }


PARAM_ROLES = _roles()


def _sym(l):
    if not l:
        return '?'
    if l[0] == 'tbl':
        return "%s's %s order" % (l[1], NAMEAX.get(l[2], l[2]))
    if l[0] == 'conflict':
        return 'either %s or %s' % (_sym(l[1]), _sym(l[2]))
    if l[0] == 'nat':
        return 'natural sort of %s' % (l[1],)
    if l[0] == 'cat':
        return ' followed by '.join(_sym(x) for x in l[1:])
    return "`%s`" % l[1]


class Sink:
    __slots__ = ('kind', 'node', 'role', 'status', 'why', 'spec')

    def __init__(self, kind, node, role, status, why, spec):
        self.kind = kind
        self.node = node
        self.role = role
        self.status = status     # 'ok' | 'bad' | 'unknown'
        self.why = why
        self.spec = spec


class AxisInterp:
    def __init__(self, repo, rel, func, fixed=None, table_params=(),
                 qual=None, depth=0, closure=None):
        self.repo = repo
        self.rel = rel
        self.func = func
        self.fixed = dict(fixed or {})
        self.table_params = set(table_params)
        self.sinks = []
        self.returns = []
        self.qual = qual or func.name
        self.depth = depth
        self.closure = closure or {}
        self.loop_axis = []        # stack of iteration axes
        self.loop_nodes = []       # stack of loop statements
        self.spec = ','.join('%s=%s' % kv for kv in sorted(
            self.fixed.items()))
        self._defaults_cache = {}

    # ---- helpers ------------------------------------------------------
    def sink(self, kind, node, role, status, why=''):
        self.sinks.append(Sink(kind, node, role, status, why, self.spec))

    def axis_of_value(self, v):
        """Axis denoted by a value used as an ``axis=`` argument."""
        if v is None:
            return None
        if v.k == 'axis':
            return v.ax
        if v.k == 'const' and isinstance(v.c, str):
            return AXNAME.get(v.c)
        return None

    def table_default_axis(self, meth):
        if meth in self._defaults_cache:
            return self._defaults_cache[meth]
        res = None
        try:
            f = self.repo.func('biom/table.py', 'Table.%s' % meth)
            d = param_default(f, 'axis')
            if d is not None and const_str(d):
                res = AXNAME.get(const_str(d))
                if res is None:
                    res = const_str(d)
        except Exception:
            res = None
        self._defaults_cache[meth] = res
        return res

    # ---- driver -------------------------------------------------------
    def run(self):
        env = dict(self.closure)
        params = param_names(self.func)
        for p in params:
            if p in self.fixed:
                val = self.fixed[p]
                if isinstance(val, V):
                    env[p] = val
                elif isinstance(val, str) and val in AXNAME:
                    env[p] = V('axis', ax=AXNAME[val], c=val)
                else:
                    env[p] = V('const', c=val)
            elif p in ('self', 'cls'):
                env[p] = V('table', own='self') if p == 'self' else \
                    V('class')
            elif p in self.table_params:
                env[p] = V('table', own=p)
            elif p in PARAM_ROLES.get(self.qual, {}):
                pa = self.fixed.get('axis')
                env[p] = PARAM_ROLES[self.qual][p](
                    AXNAME.get(pa) if isinstance(pa, str) else None)
            else:
                env[p] = TOP
        end = self.block(self.func.body, env)
        if end is not None:
            self.exit_check(end, self.func)
        return self

    def exit_check(self, env, node):
        if self.depth:
            return
        for k, v in env.items():
            if k.startswith('$stale:'):
                _, owner, ax = k.split(':')
                if v.c:
                    self.sink('REINDEX', v.node or node,
                              'reindex-after:%s' % ('_sample_ids' if ax == S
                                                    else '_observation_ids'),
                              'bad', 'the %s ids of %s are replaced but a '
                              'path reaches the exit without '
                              '%s._index_ids(...) rebuilding that lookup '
                              '(None in its position): index()/exists() '
                              'answer for the old ids'
                              % (NAMEAX[ax], owner, owner))
                else:
                    self.sink('REINDEX', node,
                              'reindex-after:%s' % ('_sample_ids' if ax == S
                                                    else '_observation_ids'),
                              'ok', 'the lookup of the replaced ids is '
                              'rebuilt before the exit')

    def refine_order(self, test, env):
        """`if (X.ids(axis=A) == L).all():` establishes, inside the branch,
        that table X is laid out along A in the order of L."""
        t = test
        if not (isinstance(t, ast.Call) and isinstance(t.func, ast.Attribute)
                and t.func.attr == 'all' and not t.args):
            if isinstance(t, ast.Call) and call_name(t) in (
                    'np.array_equal', 'array_equal') and len(t.args) == 2:
                l, r = t.args
            else:
                return env
        else:
            c = t.func.value
            if not (isinstance(c, ast.Compare) and len(c.ops) == 1 and
                    isinstance(c.ops[0], ast.Eq)):
                return env
            l, r = c.left, c.comparators[0]
        for x, y in ((l, r), (r, l)):
            if isinstance(x, ast.Call) and isinstance(x.func, ast.Attribute) \
                    and x.func.attr == 'ids' and isinstance(
                        x.func.value, ast.Name):
                name = x.func.value.id
                tv = env.get(name)
                if tv is None or tv.k != 'table':
                    continue
                xv = self.ev(x, env)
                yv = self.ev(y, env)
                if xv.k == 'ids' and xv.ax in (O, S) and yv.lay and \
                        yv.lay[0] in ('loc', 'tbl', 'nat'):
                    own = self.named_owner(tv, x.func.value, env)
                    cur = list(_tbl_lay(tv, own))
                    cur[0 if xv.ax == O else 1] = yv.lay
                    env[name] = tv.with_(lay=tuple(cur), own=tv.own or own)
        return env

    # ---- statements ---------------------------------------------------
    def block(self, stmts, env):
        for st in stmts:
            if env is None:
                return None
            env = self.stmt(st, env)
        return env

    def stmt(self, st, env):
        if isinstance(st, ast.Expr):
            self.ev(st.value, env)
            v0 = st.value
            if isinstance(v0, ast.Call) and isinstance(
                    v0.func, ast.Attribute) and v0.func.attr == 'update' \
                    and isinstance(v0.func.value, ast.Name) and v0.args and \
                    isinstance(v0.args[0], ast.Call) and \
                    call_name(v0.args[0]) == 'zip' and v0.args[0].args:
                kv = self.ev(v0.args[0].args[0], env)
                if kv.k == 'ids':
                    self.dict_key(st, v0.func.value.id, kv, env)
            if isinstance(v0, ast.Call) and isinstance(
                    v0.func, ast.Attribute) and v0.func.attr == 'append' \
                    and v0.args and isinstance(v0.func.value, ast.Subscript) \
                    and isinstance(v0.func.value.value, ast.Subscript) and \
                    isinstance(v0.func.value.value.value, ast.Name) and \
                    isinstance(v0.func.value.slice, ast.Constant):
                dn = v0.func.value.value.value.id
                cur = env.get(dn)
                i = v0.func.value.slice.value
                if cur is not None and cur.k == 'recdict' and cur.elts and \
                        isinstance(i, int) and 0 <= i < len(cur.elts):
                    item = self.ev(v0.args[0], env)
                    ax = self.loop_axis[-1] if self.loop_axis else None
                    newl = join(cur.elts[i], V('list', el=item, ax=ax))
                    elts = list(cur.elts)
                    elts[i] = newl
                    env = dict(env)
                    env[dn] = V('recdict', elts=tuple(elts))
                    return env
            # list.append inside an axis loop builds a per-axis collection
            v = st.value
            if isinstance(v, ast.Call) and isinstance(v.func,
                                                      ast.Attribute) and \
                    v.func.attr in ('append', 'extend', 'add', 'update',
                                    'insert') and \
                    isinstance(v.func.value, ast.Name) and v.args:
                name = v.func.value.id
                item = self.ev(v.args[-1], env)
                cur = env.get(name)
                ax = self.loop_axis[-1] if self.loop_axis else None
                env = dict(env)
                if v.func.attr in ('extend', 'update'):
                    if item.k in ('ids', 'md', 'list', 'per'):
                        el = item.el if item.k == 'list' else \
                            V({'ids': 'id', 'md': 'md1'}.get(item.k, 'top'),
                              ax=item.ax, own=item.own)
                        newv = V('list', el=el, ax=item.ax)
                    else:
                        newv = V('list', el=TOP)
                else:
                    newv = V('list', el=item, ax=ax)
                if isinstance(item.c, tuple) and item.c and \
                        item.c[0] == 'conflict':
                    self.sink('CTOR', v, 'accumulate:%s' % name, 'bad',
                              'entries of the %s axis on one path and of '
                              'the %s axis on another are accumulated in %s'
                              % (NAMEAX[item.c[1]], NAMEAX[item.c[2]], name))
                if cur is not None and cur.k == 'list':
                    newv = join(cur, newv)
                    if v.func.attr == 'extend':
                        newv = newv.with_(c='concat')
                # entries appended by one loop are laid out in that loop's
                # iteration order
                if v.func.attr == 'append' and self.loop_nodes and \
                        newv.k == 'list':
                    ll = getattr(self.loop_nodes[-1], '_verif_lay', None) \
                        or ('loop', 'L%d' % self.loop_nodes[-1].lineno)
                    fresh_list = cur is None or (
                        cur.k == 'list' and (cur.el is None or
                                             cur.lay == ll))
                    newv = newv.with_(lay=ll if fresh_list else None)
                elif newv.k == 'list' and v.func.attr != 'append':
                    newv = newv.with_(lay=None)
                if v.func.attr == 'extend' and cur is not None and \
                        cur.k in ('list', 'ids', 'md') and cur.lay and \
                        item.lay and item.lay != ('new',):
                    # one extension is tracked; a collection that keeps
                    # growing (extended again) has no simple block order
                    catlay = ('cat', cur.lay, item.lay) \
                        if cur.lay[0] != 'cat' else None
                    if cur.k in ('ids', 'md'):
                        env[name] = cur.with_(c='concat', lay=catlay)
                        return env
                    newv = newv.with_(lay=catlay)
                if cur is None or cur.k in ('list', 'top'):
                    env[name] = newv
                elif cur.k in ('ids', 'md') and v.func.attr == 'extend' \
                        and item.ax in (None, cur.ax):
                    env[name] = cur.with_(c='concat')
            return env
        if isinstance(st, ast.Assign):
            val = self.ev(st.value, env)
            env = dict(env)
            for t in st.targets:
                self.assign(t, val, env, st)
            return env
        if isinstance(st, ast.AugAssign):
            val = self.ev(st.value, env)
            self.dtype_store(st, st.target, val, env)
            return env
        if isinstance(st, ast.AnnAssign):
            if st.value is not None:
                env = dict(env)
                self.assign(st.target, self.ev(st.value, env), env, st)
            return env
        if isinstance(st, ast.If):
            t = self.truth(st.test, env)
            if t is True:
                return self.block(st.body, env)
            if t is False:
                return self.block(st.orelse, env)
            if isinstance(st.test, ast.UnaryOp) and isinstance(
                    st.test.op, ast.Not):
                # `if not (X.ids(A) == L).all(): <re-order>`: the refinement
                # holds where the body is skipped
                a = self.block(st.body, dict(env))
                b = self.block(st.orelse, self.refine_order(
                    st.test.operand, dict(env)))
            else:
                a = self.block(st.body,
                               self.refine_order(st.test, dict(env)))
                b = self.block(st.orelse, dict(env))
            return self.join_env(a, b)
        if isinstance(st, (ast.For, ast.AsyncFor)):
            return self.loop(st, env)
        if isinstance(st, ast.While):
            a = self.block(st.body, dict(env))
            return self.join_env(env, a)
        if isinstance(st, (ast.With, ast.AsyncWith)):
            env = dict(env)
            for it in st.items:
                v = self.ev(it.context_expr, env)
                if it.optional_vars is not None:
                    self.assign(it.optional_vars, v, env, st)
            return self.block(st.body, env)
        if isinstance(st, ast.Try):
            a = self.block(st.body, dict(env))
            out = a
            for h in st.handlers:
                out = self.join_env(out, self.block(h.body, dict(env)))
            if out is not None and st.orelse:
                out = self.block(st.orelse, out)
            if out is not None and st.finalbody:
                out = self.block(st.finalbody, out)
            return out if out is not None else env
        if isinstance(st, ast.Return):
            if st.value is not None:
                self.returns.append(self.ev(st.value, env))
            self.exit_check(env, st)
            return None
        if isinstance(st, ast.Raise):
            return None
        if isinstance(st, (ast.FunctionDef, ast.AsyncFunctionDef)):
            env = dict(env)
            env[st.name] = V('func', node=st)
            return env
        return env

    def join_env(self, a, b):
        if a is None:
            return b
        if b is None:
            return a
        out = {}
        for k in set(a) | set(b):
            if k.startswith('$stale:'):
                x, y = a.get(k), b.get(k)
                st = [v for v in (x, y) if v is not None and v.c]
                out[k] = st[0] if st else V('const', c=False)
            elif k.startswith('$ver:'):
                if k in a and k in b and a[k] == b[k]:
                    out[k] = a[k]
                else:
                    self._vercount[0] += 1
                    out[k] = V('const', c=self._vercount[0])
            elif k in a and k in b:
                out[k] = join(a[k], b[k])
            else:
                out[k] = a.get(k) or b.get(k)
        return out

    _vercount = [0]

    def assign(self, target, val, env, st):
        if isinstance(target, ast.Name):
            if val.lay == ('new',):
                val = val.with_(lay=('loc', target.id))
            self._vercount[0] += 1
            env['$ver:' + target.id] = V('const', c=self._vercount[0])
            env[target.id] = val
        elif isinstance(target, (ast.Tuple, ast.List)):
            if val.k == 'tuple' and val.elts and \
                    len(val.elts) == len(target.elts):
                for t, v in zip(target.elts, val.elts):
                    self.assign(t, v, env, st)
            else:
                for t in target.elts:
                    self.assign(t, TOP, env, st)
        elif isinstance(target, ast.Attribute):
            if target.attr == '_data' and dotted(target):
                env[dotted(target)] = val
            rv = self.ev(target.value, env)
            if rv.k == 'table' and rv.own and rv.own.endswith("'"):
                env['$dirty:' + rv.own] = V('const', c=True)
            self.field_store(target, val, env, st)
        elif isinstance(target, ast.Subscript) and isinstance(
                target.value, ast.Name) and val.k == 'tuple' and val.c == \
                'rec':
            cur = env.get(target.value.id)
            if cur is not None and cur.k == 'recdict' and cur.elts and \
                    len(cur.elts) == len(val.elts):
                env[target.value.id] = V('recdict', elts=tuple(
                    join(a, b) for a, b in zip(cur.elts, val.elts)))
            else:
                env[target.value.id] = V('recdict', elts=val.elts)
        elif isinstance(target, ast.Subscript):
            base = self.ev(target.value, env)
            self.dtype_store(st, target, val, env)
            if base.k == 'dict' and isinstance(target.value, ast.Name):
                self.dict_key(st, target.value.id, self.ev(target.slice,
                                                           env), env)
            if base.k == 'per' and base.c == 'alloc' and base.ax:
                idx = self.ev(target.slice, env)
                if idx.k == 'pos1' and idx.ax:
                    self.sink('SHAPE', st, 'fill-allocation',
                              'ok' if idx.ax == base.ax else 'bad',
                              'an array allocated with one entry per %s is '
                              'filled while iterating the %s axis'
                              % (NAMEAX[base.ax], NAMEAX[idx.ax]))

    FIELDS = {'_sample_ids': ('ids', S), '_observation_ids': ('ids', O),
              '_sample_metadata': ('md', S), '_observation_metadata': ('md',
                                                                       O),
              '_sample_index': ('index', S), '_obs_index': ('index', O),
              '_sample_group_metadata': ('gmd', S),
              '_observation_group_metadata': ('gmd', O)}

    def field_store(self, target, val, env, st):
        recv = self.ev(target.value, env)
        if recv.k != 'table' or target.attr not in self.FIELDS:
            return
        kind, ax = self.FIELDS[target.attr]
        role = 'store:%s' % target.attr
        if kind == 'ids' and dotted(target.value) and \
                self.qual != 'Table.__init__':
            env['$stale:%s:%s' % (dotted(target.value), ax)] = V(
                'const', c=True, node=st)
        if val.k == 'none' or (val.k == 'const' and val.c is None):
            self.sink('STORE', st, role, 'ok', 'None')
            return
        vax = val.ax
        if val.k in ('ids', 'md', 'index', 'list', 'per', 'gmd') and \
                vax is not None:
            if vax == ax:
                self.sink('STORE', st, role, 'ok',
                          '%s of the %s axis stored in the %s field'
                          % (val.k, NAMEAX[vax], NAMEAX[ax]))
            else:
                self.sink('STORE', st, role, 'bad',
                          '%s of the %s axis is stored in the %s field %s'
                          % (val.k, NAMEAX[vax], NAMEAX[ax], target.attr))
        else:
            self.sink('STORE', st, role, 'unknown', 'value axis unresolved '
                      '(%r)' % val)

    def loop(self, st, env):
        it = st.iter
        # unrollable: constant list of axis names, zip of constant lists
        consts = self.const_seq(it, env)
        if consts is not None and len(consts) <= 4:
            for item in consts:
                e2 = dict(env)
                self.assign(st.target, item, e2, st)
                self.loop_axis.append(None)
                out = self.block(st.body, e2)
                self.loop_axis.pop()
                env = self.join_env(env, out) if out is not None else env
            return env
        itv = self.ev(it, env)
        elem, ax = self.element_of(itv, it, env)
        e2 = dict(env)
        self.assign(st.target, elem, e2, st)
        self.loop_axis.append(ax)
        # what is appended while walking a sequence is in that sequence's
        # order; an unordered / unknown source gets a symbol of its own
        src_lay = itv.lay if itv.k in ('ids', 'md', 'list', 'order', 'pos',
                                       'index') and itv.lay and \
            itv.lay != ('new',) else None
        if src_lay is None and itv.k == 'enum' and itv.el is not None:
            src_lay = itv.el.lay
        st._verif_lay = src_lay or ('loop', 'L%d' % st.lineno)
        self.loop_nodes.append(st)
        try:
            return self._loop_body(st, env, e2, elem)
        finally:
            self.loop_nodes.pop()

    def _loop_body(self, st, env, e2, elem):
        out = self.block(st.body, e2)
        if out is not None:
            e3 = self.join_env(env, out)
            self.assign(st.target, elem, e3, st)
            out2 = self.block(st.body, e3)
            out = self.join_env(out, out2)
        self.loop_axis.pop()
        res = self.join_env(env, out)
        if st.orelse and res is not None:
            res = self.block(st.orelse, res)
        return res

    def const_seq(self, it, env):
        """Elements (as values) of a literal/known constant sequence."""
        if isinstance(it, (ast.List, ast.Tuple)):
            vals = [self.ev(e, env) for e in it.elts]
            if all(v.k in ('const', 'axis') and (v.k != 'axis' or v.c)
                   for v in vals):
                return vals
            # a literal sequence of literal tuples: (('observation',
            # 'csr'), ('sample', 'csc'))
            if vals and all(isinstance(e, (ast.Tuple, ast.List))
                            for e in it.elts):
                rows = [[self.ev(x, env) for x in e.elts] for e in it.elts]
                if len({len(r) for r in rows}) == 1:
                    return [V('tuple', elts=tuple(r)) for r in rows]
            return None
        if isinstance(it, ast.Name):
            v = env.get(it.id)
            if v is not None and v.k == 'tuple' and v.elts and all(
                    e.k in ('const', 'axis') for e in v.elts) and v.c == 'seq':
                return list(v.elts)
            return None
        if isinstance(it, ast.Call) and call_name(it) == 'zip':
            cols = [self.const_seq(a, env) for a in it.args]
            if all(c is not None for c in cols) and cols:
                return [V('tuple', elts=tuple(row)) for row in zip(*cols)]
        return None

    def element_of(self, itv, it, env):
        """(element value, iteration axis) for iterating ``itv``."""
        if itv.k == 'ids':
            return V('id', ax=itv.ax, own=itv.own), itv.ax
        if itv.k == 'md':
            return V('md1', ax=itv.ax, own=itv.own), itv.ax
        if itv.k == 'list':
            return itv.el or TOP, itv.ax
        if itv.k == 'iter' and itv.el is not None:
            return itv.el, itv.ax
        if itv.k == 'matrix' and itv.own is not None and itv.c != 'dense' \
                and it is not None:
            # iterating a scipy matrix walks its rows - for the formats that
            # support it; a table's matrix may be in any format (COO after
            # an all-zero import is not iterable / subscriptable)
            if itv.maj in (None, '?'):
                self.sink('MAJOR', it, 'iterate-raw', 'bad',
                          'the table\'s matrix is iterated without fixing '
                          'its format (tocsr/tocsc): a COO matrix - what an '
                          'all-zero import produces - cannot be iterated '
                          'row by row')
            else:
                self.sink('MAJOR', it, 'iterate-raw', 'ok',
                          'format fixed before iterating')
            return V('per', ax=S if not itv.flip else O, own=itv.own), \
                (O if not itv.flip else S)
        if itv.k == 'per':
            return V('scalar'), itv.ax
        if itv.k == 'pos':
            return V('pos1', ax=itv.ax, ref=itv.ref), itv.ax
        if itv.k == 'zip' and itv.elts:
            els = []
            ax = None
            for e in itv.elts:
                el, a = self.element_of(e, it if e.k == 'matrix' else None,
                                        env)
                els.append(el)
                ax = ax or a
            return V('tuple', elts=tuple(els)), ax
        if itv.k == 'enum' and itv.el is not None:
            el, a = self.element_of(itv.el, it if itv.el.k == 'matrix'
                                    else None, env)
            return V('tuple', elts=(V('pos1', ax=a, ref=itv.el.lay),
                                    el)), a
        if itv.k == 'order':
            # list of (id, position) pairs or dict id -> position
            return V('tuple', elts=(V('id', ax=itv.ax),
                                    V('pos1', ax=itv.ax,
                                      ref=itv.lay))), itv.ax
        if itv.k == 'index':
            return V('id', ax=itv.ax, own=itv.own), itv.ax
        if itv.k == 'md1':
            return V('mdkey', c=dotted(it) if it is not None else None), None
        if itv.k == 'mdkeys':
            return V('mdkey', c=itv.c), None
        if itv.k == 'mditems':
            return V('tuple', elts=(V('mdkey', c=itv.c), TOP)), None
        if itv.k == 'recdict-items' and itv.elts:
            return V('tuple', elts=(TOP, V('tuple', elts=itv.elts))), None
        if itv.k == 'jsonrecs':
            return V('jsonrec', ax=itv.ax), itv.ax
        if itv.k == 'len' and itv.ax:
            return V('pos1', ax=itv.ax), itv.ax
        return TOP, None

    # ---- truth --------------------------------------------------------
    def truth(self, test, env):
        v = self.ev(test, env)
        if v.k == 'pos1':
            self.sink('TRUTH', test, 'position-as-truth', 'bad',
                      'a position (which may be 0) is used as a truth '
                      'value: the first id on the axis is treated as '
                      'missing')
        if v.k == 'const' and not isinstance(v.c, V):
            try:
                return bool(v.c)
            except Exception:
                return None
        if v.k == 'none':
            return False
        return None

    # ---- expressions --------------------------------------------------
    def ev(self, e, env):
        try:
            return self._ev(e, env)
        except RecursionError:
            return TOP

    def _ev(self, e, env):
        if e is None:
            return NONE
        if isinstance(e, ast.Constant):
            if e.value is None:
                return NONE
            if isinstance(e.value, str) and e.value in AXNAME:
                return V('axis', ax=AXNAME[e.value], c=e.value)
            return V('const', c=e.value)
        if isinstance(e, ast.Name):
            if e.id in env:
                return env[e.id]
            if e.id in ('hstack', 'vstack', 'itemgetter'):
                return V('const', c=e.id)
            if e.id in DT_NAMES:
                return V('dtype', c=DT_NAMES[e.id])
            return TOP
        if isinstance(e, ast.Attribute):
            if dotted(e) in DT_NAMES:
                return V('dtype', c=DT_NAMES[dotted(e)])
            return self.attribute(e, env)
        if isinstance(e, ast.Subscript):
            return self.subscript(e, env)
        if isinstance(e, ast.Call):
            return self.call(e, env)
        if isinstance(e, (ast.Yield, ast.YieldFrom)):
            v = self.ev(e.value, env) if e.value is not None else NONE
            # the caller runs between two steps of a generator: any accessor
            # it calls may convert the table's matrix to the other layout
            for k in list(env):
                if k.endswith('._data') and env[k].k == 'matrix' and \
                        env[k].maj is not None:
                    env[k] = env[k].with_(maj=None, c='after-yield')
            return TOP
        if isinstance(e, ast.IfExp):
            t = self.truth(e.test, env)
            if t is True:
                return self.ev(e.body, env)
            if t is False:
                return self.ev(e.orelse, env)
            return join(self.ev(e.body, env), self.ev(e.orelse, env))
        if isinstance(e, ast.Compare):
            return self.compare(e, env)
        if isinstance(e, ast.BoolOp):
            vals = [self.ev(v, env) for v in e.values]
            known = [v.c for v in vals if v.k == 'const']
            if isinstance(e.op, ast.And):
                if any(v.k == 'const' and not v.c for v in vals) or \
                        any(v.k == 'none' for v in vals):
                    return V('const', c=False)
                if all(v.k == 'const' and v.c for v in vals):
                    return V('const', c=True)
            else:
                if any(v.k == 'const' and v.c for v in vals):
                    return V('const', c=True)
                if all((v.k == 'const' and not v.c) or v.k == 'none'
                       for v in vals):
                    return V('const', c=False)
                rest = [v for v in vals if v.k not in ('none', 'const')]
                if len(rest) == 1:
                    return rest[0]       # `x or None`
            return V('bool')
        if isinstance(e, ast.UnaryOp):
            v = self.ev(e.operand, env)
            if isinstance(e.op, ast.Not):
                if v.k == 'const':
                    return V('const', c=not v.c)
                if v.k == 'none':
                    return V('const', c=True)
                return V('bool')
            return v if v.k in ('per', 'matrix') else TOP
        if isinstance(e, (ast.Tuple, ast.List)):
            elts = tuple(self.ev(x, env) for x in e.elts)
            if isinstance(e, ast.List):
                # a literal list of axis names can be iterated (unrolled)
                if elts and all(x.k in ('axis', 'const') for x in elts):
                    return V('tuple', elts=elts, c='seq')
                if len(elts) >= 2 and all(x.k == 'list' and x.el is None
                                          for x in elts):
                    return V('tuple', elts=elts, c='rec')
                if elts:
                    el = elts[0]
                    for x in elts[1:]:
                        el = join(el, x)
                    return V('list', el=el)
                return V('list', el=None)
            return V('tuple', elts=elts)
        if isinstance(e, (ast.ListComp, ast.GeneratorExp, ast.SetComp)):
            env2 = dict(env)
            ax = None
            for g in e.generators:
                itv = self.ev(g.iter, env2)
                consts = self.const_seq(g.iter, env2)
                if consts:
                    el = consts[0]
                    for c in consts[1:]:
                        el = join(el, c)
                    a = None
                else:
                    el, a = self.element_of(itv, g.iter, env2)
                self.assign(g.target, el, env2, e)
                ax = ax or a
            self.loop_axis.append(ax)
            elv = self.ev(e.elt, env2)
            self.loop_axis.pop()
            lay = None
            if len(e.generators) == 1 and not e.generators[0].ifs:
                src = self.ev(e.generators[0].iter, env)
                lay = src.lay if src.k != 'matrix' else None
                g0 = e.generators[0]
                if isinstance(e.elt, ast.Subscript) and isinstance(
                        g0.target, ast.Name) and isinstance(
                        e.elt.slice, ast.Name) and \
                        e.elt.slice.id == g0.target.id:
                    # a gather L[i] for i in <positions>: the result is in
                    # the order of the positions, not in L's order
                    base = self.ev(e.elt.value, env)
                    if base.k in ('list', 'ids', 'md') and base.lay:
                        lay = src.lay if src.lay else ('new',)
                        if base.k in ('ids', 'md'):
                            return V(base.k, ax=base.ax, own=base.own,
                                     lay=lay, fresh=True)
                        return V('list', el=base.el, ax=base.ax, lay=lay)
            if elv.k == 'id':
                return V('ids', ax=elv.ax, own=elv.own, lay=lay)
            if elv.k == 'md1':
                return V('md', ax=elv.ax, own=elv.own, lay=lay)
            if elv.k == 'pos1':
                return V('pos', ax=elv.ax, lay=lay, ref=elv.ref)
            return V('list', el=elv, ax=ax, lay=lay)
        if isinstance(e, ast.DictComp) and len(e.generators) == 1:
            it = e.generators[0].iter
            if isinstance(it, ast.Call) and isinstance(
                    it.func, ast.Attribute) and it.func.attr == 'items':
                src = self.ev(it.func.value, env)
                if src.k == 'h5md':
                    return V('gmd', ax=src.ax)
        if isinstance(e, ast.DictComp):
            env2 = dict(env)
            for g in e.generators:
                itv = self.ev(g.iter, env2)
                el, a = self.element_of(itv, g.iter, env2)
                self.assign(g.target, el, env2, e)
            k = self.ev(e.key, env2)
            v = self.ev(e.value, env2)
            if k.k == 'id' and v.k == 'pos1':
                return V('index', ax=k.ax, own=None, lay=v.ref)
            if k.k == 'id':
                return V('dict', ax=k.ax, el=v)
            return V('dict', el=v)
        if isinstance(e, ast.Dict):
            items = []
            for k, v in zip(e.keys, e.values):
                val = self.ev(v, env)
                if k is not None and const_str(k):
                    items.append((const_str(k), val))
            if items and len(items) == len(e.keys):
                return V('dict', c=tuple(items))
            return V('dict')
        if isinstance(e, ast.BinOp):
            a = self.ev(e.left, env)
            b = self.ev(e.right, env)
            if a.k == 'per' and b.k == 'per' and isinstance(
                    e.op, (ast.Add, ast.Sub, ast.Mult, ast.Div)) and \
                    a.own and b.own and a.c != 'alloc' and b.c != 'alloc':
                same = a.own.rstrip("'") == b.own.rstrip("'")
                if a.ax and b.ax and a.ax != b.ax:
                    self.sink('OWNER', e, 'combine:per', 'bad',
                              'a vector over the %s axis is combined '
                              'element-wise with a vector over the %s axis'
                              % (NAMEAX[a.ax], NAMEAX[b.ax]))
                elif not same and not (a.lay and a.lay == b.lay):
                    self.sink('OWNER', e, 'combine:per', 'bad',
                              "vectors of table '%s' and table '%s' are "
                              "combined position by position although "
                              "nothing establishes that the two tables list "
                              "their ids in the same order" % (a.own, b.own))
                else:
                    self.sink('OWNER', e, 'combine:per', 'ok',
                              'vectors of one table / one established order')
            if isinstance(e.op, (ast.Sub, ast.BitOr, ast.BitAnd,
                                 ast.BitXor)) and a.k in ('ids', 'list') \
                    and b.k in ('ids', 'list', 'top'):
                # set algebra over ids of one axis stays on that axis
                aax = a.ax or (a.el.ax if a.k == 'list' and a.el is not None
                               and a.el.k == 'id' else None)
                if aax and (a.k == 'ids' or (a.el is not None and
                                             a.el.k == 'id')) and (
                        b.k != 'ids' or b.ax in (None, aax)):
                    return V('ids', ax=aax, own=None, fresh=True,
                             lay=('new',))
            if isinstance(e.op, ast.Mult) and a.k == 'list' and \
                    b.k == 'len' and b.ax:
                return V('md' if a.el is not None and a.el.k == 'none'
                         else 'list', ax=b.ax, el=a.el)
            if isinstance(e.op, ast.Mult) and a.k == 'tuple' and \
                    b.k == 'len' and b.ax and a.elts and \
                    all(x.k == 'none' for x in a.elts):
                return V('md', ax=b.ax)
            if isinstance(e.op, ast.Add) and a.k in ('list', 'tuple') and \
                    b.k in ('list', 'tuple'):
                la = a if a.k == 'list' else V(
                    'list', el=a.elts[0] if a.elts else None)
                lb = b if b.k == 'list' else V(
                    'list', el=b.elts[0] if b.elts else None)
                return join(la, lb)
            if isinstance(e.op, (ast.Add, ast.Mod)) and a.k == 'const' and \
                    isinstance(a.c, str):
                self.label_check(e, a.c, b)
            if isinstance(e.op, ast.Mod) and a.k == 'const' and \
                    isinstance(a.c, str):
                if b.k == 'axis' and b.c:
                    try:
                        return V('const', c=a.c % b.c)
                    except Exception:
                        return V('str')
                return V('str')
            def idcoll(v):
                if v.k == 'ids':
                    return v.ax
                if v.k == 'list' and v.el is not None and v.el.k == 'id':
                    return v.el.ax or v.ax
                return None
            if isinstance(e.op, (ast.Sub, ast.BitAnd, ast.BitOr)) and \
                    idcoll(a) and idcoll(a) == idcoll(b):
                return V('ids', ax=idcoll(a))
            if a.k == 'per' or b.k == 'per':
                return a if a.k == 'per' else b
            if a.k == 'const' and b.k == 'const':
                try:
                    if isinstance(e.op, ast.Sub):
                        return V('const', c=a.c - b.c)
                    if isinstance(e.op, ast.Add):
                        return V('const', c=a.c + b.c)
                except Exception:
                    pass
            if a.k == 'axisnum' and b.k == 'const' or \
                    b.k == 'axisnum' and a.k == 'const':
                # 1 - axisnum -> the other axis' number
                if isinstance(e.op, ast.Sub) and a.k == 'const' and \
                        a.c == 1 and b.c is not None:
                    return V('axisnum', ax=inv(b.ax), c=1 - b.c)
            return TOP
        if isinstance(e, ast.Lambda):
            return V('func', node=e)
        if isinstance(e, ast.Starred):
            return self.ev(e.value, env)
        if isinstance(e, ast.JoinedStr):
            return V('str')
        return TOP

    def compare(self, e, env):
        if len(e.ops) != 1:
            for c in [e.left] + e.comparators:
                self.ev(c, env)
            return V('bool')
        a = self.ev(e.left, env)
        b = self.ev(e.comparators[0], env)
        op = e.ops[0]

        def cval(v):
            if v.k == 'axis' and v.c:
                return v.c
            if v.k in ('const',):
                return v.c
            if v.k == 'axisnum' and v.c is not None:
                return v.c
            if v.k == 'none':
                return None
            return Ellipsis
        x, y = cval(a), cval(b)
        if isinstance(op, (ast.Is, ast.IsNot)):
            if a.k == 'none' and b.k == 'none':
                return V('const', c=isinstance(op, ast.Is))
            known_not_none = lambda v: v.k in ('const', 'axis', 'axisnum',
                                               'table', 'ids', 'matrix',
                                               'func', 'tuple', 'list')
            if (a.k == 'none' and known_not_none(b)) or \
                    (b.k == 'none' and known_not_none(a)):
                return V('const', c=isinstance(op, ast.IsNot))
            return V('bool')
        if x is not Ellipsis and y is not Ellipsis:
            try:
                if isinstance(op, ast.Eq):
                    return V('const', c=x == y)
                if isinstance(op, ast.NotEq):
                    return V('const', c=x != y)
            except Exception:
                pass
        if isinstance(op, (ast.In, ast.NotIn)) and x is not Ellipsis and \
                b.k == 'tuple' and b.elts and all(
                    cval(t) is not Ellipsis for t in b.elts):
            res = x in [cval(t) for t in b.elts]
            return V('const', c=res if isinstance(op, ast.In) else not res)
        if a.k == 'len' and b.k == 'len' and a.ax and b.ax and \
                isinstance(op, (ast.Lt, ast.LtE, ast.Gt, ast.GtE, ast.Eq,
                                ast.NotEq)):
            if a.ax != b.ax:
                self.sink('SHAPE', e, 'compare-lengths', 'bad',
                          'a number of %ss is compared with a number of %ss'
                          % (NAMEAX[a.ax], NAMEAX[b.ax]))
            else:
                self.sink('SHAPE', e, 'compare-lengths', 'ok', '')
        # (ids == order).all() style comparisons keep an axis
        if a.k in ('ids', 'per') and b.k in ('ids', 'list', 'per'):
            return V('per', ax=a.ax)
        if a.k == 'per' and isinstance(op, (ast.Gt, ast.Lt, ast.GtE,
                                             ast.LtE, ast.NotEq, ast.Eq)):
            return V('per', ax=a.ax, own=a.own)
        return V('bool')

    # ---- attributes ---------------------------------------------------
    def attribute(self, e, env):
        base = self.ev(e.value, env)
        attr = e.attr
        if base.k == 'table' and base.own is None:
            base = base.with_(own=self.named_owner(base, e.value, env))
        if base.k == 'table':
            if attr in self.FIELDS:
                kind, ax = self.FIELDS[attr]
                return V(kind, ax=ax, own=base.own,
                         lay=vlay(base, base.own, ax))
            if attr in ('_data', 'matrix_data'):
                key = (dotted(e.value) or '') + '._data'
                if key in env and env[key].k == 'matrix':
                    return env[key].with_(own=base.own)
                return V('matrix', own=base.own,
                         lay=_tbl_lay(base, base.own))
            if attr == 'shape':
                return V('tuple', elts=(V('len', ax=O, own=base.own),
                                        V('len', ax=S, own=base.own)),
                         c='shape')
            if attr == 'dtype':
                return V('dtype', c='float')
            if attr == 'nnz':
                return V('len')
            if attr in ('type', 'table_id', 'create_date',
                        'generated_by', 'format_version'):
                return V('scalar')
            if attr == '__class__':
                return V('class')
            return V('method', own=base.own, c=attr, node=e)
        if base.k == 'matrix':
            if attr == 'T':
                return base.with_(flip=not base.flip, maj=inv(base.maj)
                                  if base.maj else None, fresh=True)
            if attr == 'shape':
                r, c = (S, O) if base.flip else (O, S)
                return V('tuple', elts=(V('len', ax=r), V('len', ax=c)),
                         c='shape')
            if attr in ('indices', 'indptr') and base.own is not None and \
                    base.c != 'dense':
                if base.maj == '?':
                    self.sink('MAJOR', e, 'raw-%s' % attr, 'unknown',
                              'layout fixed by asformat(<unresolved>)')
                elif base.maj is None and base.c == 'after-yield':
                    self.sink('MAJOR', e, 'raw-%s' % attr, 'bad',
                              'the compressed-storage array %s is read after '
                              'the generator has yielded: the layout fixed '
                              'before the loop may have been changed by '
                              'whatever the consumer called in between '
                              '(data(id, other axis), iteration over the '
                              'other axis)' % attr)
                elif base.maj is None:
                    self.sink('MAJOR', e, 'raw-%s' % attr, 'bad',
                              'the compressed-storage array %s of a table\'s '
                              'matrix is read without fixing its layout '
                              '(tocsr/tocsc): after a per-sample operation '
                              'the matrix is column-compressed and the array '
                              'means something else' % attr)
                else:
                    self.sink('MAJOR', e, 'raw-%s' % attr, 'ok',
                              'layout fixed (%s-major)' % NAMEAX[base.maj])
            if attr == 'dtype':
                return V('dtype', c='float') if base.own is not None \
                    else V('raw')
            if attr in ('data', 'indices', 'indptr', 'nnz'):
                return V('raw')
            return V('mmethod', c=attr, el=base, node=e)
        if base.k in ('ids', 'per', 'md', 'list', 'pos'):
            if attr == 'size':
                return V('len', ax=base.ax)
            if attr == 'dtype':
                if base.k == 'ids':
                    return V('dtype', c='idwidth', own=base.own, ax=base.ax)
                return V('scalar')
            if base.k == 'per' and attr == 'data':
                return V('per', own=base.own, c='values')
            if base.k == 'per' and attr == 'indices':
                return V('pos', ax=base.ax)
            return V('cmethod', c=attr, el=base, node=e)
        if base.k == 'class' and attr in ('from_hdf5', 'from_json',
                                          'from_tsv', '_to_sparse'):
            return V('method', own=None, c=attr, node=e)
        d = dotted(e)
        if d in ('np.hstack', 'np.vstack'):
            return TOP
        return TOP

    # ---- subscripts ---------------------------------------------------
    def subscript(self, e, env):
        base = self.ev(e.value, env)
        sl = e.slice
        if base.k == 'tuple' and base.elts and isinstance(sl, ast.Slice):
            # t[::-1] reverses; any other slice of a tuple is not followed
            if sl.lower is None and sl.upper is None and isinstance(
                    sl.step, ast.UnaryOp) and isinstance(
                    sl.step.op, ast.USub) and isinstance(
                    sl.step.operand, ast.Constant) and \
                    sl.step.operand.value == 1:
                return base.with_(elts=tuple(reversed(base.elts)))
            if sl.lower is None and sl.upper is None and sl.step is None:
                return base
            return TOP
        if base.k == 'tuple' and base.elts:
            idx = self.ev(sl, env)
            if idx.k == 'const' and isinstance(idx.c, int) and \
                    -len(base.elts) <= idx.c < len(base.elts):
                return base.elts[idx.c]
            if idx.k == 'axisnum' and idx.c is not None and \
                    base.c == 'shape':
                return base.elts[idx.c]
            return TOP
        if base.k in ('ids', 'md', 'list', 'pos'):
            if isinstance(sl, ast.Slice):
                return base
            idx = self.ev(sl, env)
            if idx.k == 'pos' and base.lay and idx.ref and \
                    base.lay != idx.ref:
                self.sink('ORDER', e, 'gather:%s' % base.k, 'bad',
                          '%s laid out in order %s is gathered with '
                          'positions that refer to order %s'
                          % (base.k, _sym(base.lay), _sym(idx.ref)))
            elif idx.k == 'pos' and base.lay and idx.ref:
                self.sink('ORDER', e, 'gather:%s' % base.k, 'ok',
                          'positions refer to the order the collection is '
                          'laid out in')
            if idx.k == 'pos':
                base = base.with_(lay=idx.lay, fresh=True)
            elif idx.k in ('per', 'bool', 'list'):
                base = base.with_(lay=None, fresh=True)
            if idx.k in ('per', 'pos', 'bool', 'list'):
                # mask / fancy selection keeps the collection kind
                if idx.k in ('per', 'pos') and idx.ax and base.ax and \
                        idx.ax != base.ax:
                    self.sink('OWNER', e, 'select:%s' % base.k, 'bad',
                              '%s of the %s axis selected by a mask/position '
                              'array of the %s axis' % (
                                  base.k, NAMEAX[base.ax], NAMEAX[idx.ax]))
                elif idx.k in ('per', 'pos') and idx.ax and base.ax:
                    self.sink('OWNER', e, 'select:%s' % base.k, 'ok',
                              'selector and collection on the same axis')
                if idx.k == 'per' and idx.own and base.own and \
                        idx.own != base.own and \
                        idx.own.rstrip("'") == base.own.rstrip("'"):
                    # a table and its copy: the mask only fits while the
                    # copy has not been changed since it was taken
                    dirty = [o for o in (idx.own, base.own)
                             if o.endswith("'") and
                             env.get('$dirty:' + o) is not None]
                    self.sink('OWNER', e, 'select-owner:%s' % base.k,
                              'bad' if dirty else 'ok',
                              "a mask computed on table '%s' selects %s of "
                              "table '%s' after the copy was changed in "
                              "place" % (idx.own, base.k, base.own)
                              if dirty else 'copy unchanged since taken')
                return base
            elk = {'ids': 'id', 'md': 'md1', 'pos': 'pos1'}.get(base.k)
            if idx.k in ('top', 'cmethod', 'raw'):
                return base
            if idx.k == 'pos1' and base.lay and idx.ref:
                self.sink('ORDER', e, 'element:%s' % base.k,
                          'ok' if base.lay == idx.ref else 'bad',
                          '%s laid out in order %s is indexed with a '
                          'position in order %s'
                          % (base.k, _sym(base.lay), _sym(idx.ref)))
            if idx.k == 'pos1' and idx.ax and base.ax:
                if idx.ax != base.ax:
                    self.sink('OWNER', e, 'element:%s' % base.k, 'bad',
                              '%s of the %s axis indexed by a position on '
                              'the %s axis' % (base.k, NAMEAX[base.ax],
                                               NAMEAX[idx.ax]))
                else:
                    self.sink('OWNER', e, 'element:%s' % base.k, 'ok', '')
            if elk:
                return V(elk, ax=base.ax, own=base.own)
            return base.el or TOP
        if base.k == 'per':
            if isinstance(sl, ast.Slice):
                return base
            idx = self.ev(sl, env)
            if idx.k == 'pos1' and idx.ax:
                st = 'ok' if idx.ax == base.ax else 'bad'
                own_ok = (idx.own is None or base.own is None or
                          idx.own == base.own)
                if st == 'ok' and not own_ok:
                    self.sink('OWNER', e, 'vector-by-index', 'bad',
                              "a vector of table '%s' is indexed with a "
                              "position looked up in table '%s'"
                              % (base.own, idx.own))
                elif base.ax:
                    self.sink('OWNER', e, 'vector-by-index', st,
                              'vector entries are indexed by the %s axis, '
                              'position belongs to the %s axis'
                              % (NAMEAX[base.ax], NAMEAX[idx.ax]))
                return V('scalar')
            if idx.k in ('per', 'pos', 'bool'):
                return base
            return V('scalar')
        if base.k == 'index':
            idx = self.ev(sl, env)
            if idx.k == 'id' and idx.ax and base.ax:
                self.sink('IDAPI', e, 'index-lookup',
                          'ok' if idx.ax == base.ax else 'bad',
                          'id of the %s axis looked up in the %s index'
                          % (NAMEAX[idx.ax], NAMEAX[base.ax]))
            return V('pos1', ax=base.ax, own=base.own, ref=base.lay)
        if base.k == 'matrix':
            return self.matrix_subscript(e, base, env)
        if base.k == 'md1' and isinstance(e.ctx, ast.Load):
            idx = self.ev(sl, env)
            if idx.k == 'mdkey' and idx.c == dotted(e.value):
                return TOP          # key taken from this very mapping
            self.sink('DDICT', e, 'metadata-subscript-read', 'bad',
                      'a per-id metadata mapping is a defaultdict: reading '
                      'md[key] inserts key -> None when absent, so this '
                      'read changes the table (use .get)')
            return TOP
        if base.k == 'dict':
            if isinstance(base.c, tuple) and base.c and all(
                    isinstance(i, tuple) and len(i) == 2 and
                    isinstance(i[1], V) for i in base.c):
                # a literal {'observation': ..., 'sample': ...}
                d = dict(base.c)
                kv = self.ev(sl, env)
                key = const_str(sl) or (
                    NAMEAX.get(kv.ax) if kv.k == 'axis' and
                    kv.ax in (O, S) else None)
                if key in d:
                    return d[key]
                vals = list(d.values())
                if all(v.k == vals[0].k and v.lay == vals[0].lay
                       for v in vals):
                    return vals[0] if all(
                        v.ax == vals[0].ax for v in vals) \
                        else vals[0].with_(ax=None)
            return base.el or TOP
        if base.k == 'table':
            if isinstance(sl, ast.Tuple) and len(sl.elts) == 2:
                r, c = sl.elts
                full = lambda x: isinstance(x, ast.Slice) and \
                    x.lower is None and x.upper is None
                if full(r) and not full(c):
                    p_ = self.ev(c, env)
                    if p_.k == 'pos1' and p_.ax:
                        self.sink('MATOP', e, 'table-subscript',
                                  'ok' if p_.ax == S else 'bad',
                                  'a position on the %s axis selects a '
                                  'column (sample)' % NAMEAX[p_.ax])
                    return V('per', ax=O, own=base.own)
                if full(c) and not full(r):
                    p_ = self.ev(r, env)
                    if p_.k == 'pos1' and p_.ax:
                        self.sink('MATOP', e, 'table-subscript',
                                  'ok' if p_.ax == O else 'bad',
                                  'a position on the %s axis selects a row '
                                  '(observation)' % NAMEAX[p_.ax])
                    return V('per', ax=S, own=base.own)
                pr, pc = self.ev(r, env), self.ev(c, env)
                if pr.k == 'pos1' and pc.k == 'pos1' and pr.ax and pc.ax:
                    self.sink('MATOP', e, 'table-subscript',
                              'ok' if (pr.ax, pc.ax) == (O, S) else 'bad',
                              'cell addressed by (%s position, %s position)'
                              % (NAMEAX[pr.ax], NAMEAX[pc.ax]))
                return V('scalar')
            return V('raw')
        if base.k == 'h5':
            idx = self.ev(sl, env)
            key = idx.c if idx.k in ('const', 'axis') else None
            if isinstance(key, str):
                cur = base
                for part in key.split('/'):
                    if part in AXNAME:
                        cur = V('h5', ax=AXNAME[part])
                    elif part == 'ids':
                        return V('h5ids', ax=cur.ax)
                    elif part in ('metadata', 'group-metadata'):
                        cur = V('h5md', ax=cur.ax)
                    elif part == 'matrix':
                        cur = V('h5mat', ax=cur.ax)
                    else:
                        cur = V('h5x', ax=cur.ax)
                return cur
            return V('h5x', ax=base.ax)
        if base.k == 'h5ids':
            return V('ids', ax=base.ax)
        if base.k in ('h5mat', 'h5x', 'h5md'):
            return V(base.k, ax=base.ax)
        if base.k == 'jsondoc':
            idx = self.ev(sl, env)
            key = idx.c if idx.k == 'const' else None
            if key == 'rows':
                return V('jsonrecs', ax=O)
            if key == 'columns':
                return V('jsonrecs', ax=S)
            if key == 'shape':
                return V('tuple', elts=(V('len', ax=O), V('len', ax=S)),
                         c='shape')
            return TOP
        if base.k == 'jsonrec':
            idx = self.ev(sl, env)
            key = idx.c if idx.k == 'const' else None
            if key == 'id':
                return V('id', ax=base.ax)
            if key == 'metadata':
                return V('md1', ax=base.ax)
            return TOP
        return TOP

    def matrix_subscript(self, e, base, env):
        sl = e.slice
        if isinstance(sl, ast.Tuple) and len(sl.elts) == 2:
            r, c = sl.elts
            full = lambda x: isinstance(x, ast.Slice) and x.lower is None \
                and x.upper is None
            rows_ax, cols_ax = (S, O) if base.flip else (O, S)
            if full(r) and not full(c):
                sel = self.ev(c, env)
                pos_ax = cols_ax
            elif full(c) and not full(r):
                sel = self.ev(r, env)
                pos_ax = rows_ax
            else:
                return V('scalar')
            mlay = base.lay if isinstance(base.lay, tuple) and \
                len(base.lay) == 2 else (None, None)
            dim = 0 if pos_ax == rows_ax else 1
            if base.flip:
                mlay = (mlay[1], mlay[0])
            if sel.k == 'pos' and sel.ref and mlay[dim]:
                self.sink('ORDER', e, 'gather:matrix',
                          'ok' if sel.ref == mlay[dim] else 'bad',
                          'matrix laid out in order %s along that dimension '
                          'is gathered with positions in order %s'
                          % (_sym(mlay[dim]), _sym(sel.ref)))
            newlay = list(mlay)
            newlay[dim] = sel.lay if sel.k == 'pos' else None
            if base.flip:
                newlay = [newlay[1], newlay[0]]
            self._last_mlay = tuple(newlay)
            if sel.k in ('pos', 'pos1', 'per') and sel.ax:
                self.sink('MATOP', e, 'matrix-subscript',
                          'ok' if sel.ax == pos_ax else 'bad',
                          'positions on the %s axis select along the %s '
                          'dimension of the matrix' % (NAMEAX[sel.ax],
                                                       NAMEAX[pos_ax]))
            else:
                self.sink('MATOP', e, 'matrix-subscript', 'unknown',
                          'selector axis unresolved')
            return V('matrix', own=None, flip=base.flip, fresh=True,
                     lay=self._last_mlay)
        if not isinstance(sl, (ast.Slice, ast.Tuple)):
            # m[sel]: a selection along the first dimension
            rows_ax = S if base.flip else O
            sel = self.ev(sl, env)
            if sel.k in ('pos', 'pos1', 'per') and sel.ax:
                self.sink('MATOP', e, 'matrix-subscript',
                          'ok' if sel.ax == rows_ax else 'bad',
                          'positions on the %s axis select along the %s '
                          'dimension (rows) of the matrix'
                          % (NAMEAX[sel.ax], NAMEAX[rows_ax]))
        return V('matrix', own=None, flip=base.flip, fresh=True)

    # ---- calls --------------------------------------------------------
    def call(self, e, env):
        f = e.func
        name = call_name(e)
        # builtins / numpy that preserve the collection
        if name in ('np.argsort', 'argsort', 'np.lexsort') and e.args:
            v = self.ev(e.args[0], env)
            if v.k in ('ids', 'list', 'order') and v.ax:
                # the permutation that sorts the ids of an axis: positions
                # on that axis
                return V('pos', ax=v.ax, lay=('new',))
            return TOP
        if name in ('list', 'tuple', 'set', 'sorted', 'np.asarray',
                    'np.array', 'asarray', 'np.concatenate', 'deepcopy',
                    'iter', 'frozenset', 'np.squeeze', 'np.ravel',
                    'reversed', 'np.hstack') and e.args:
            v = self.ev(e.args[0], env)
            for a in e.args[1:]:
                self.ev(a, env)
            if v.k == 'md1':
                return V('mdkeys', c=dotted(e.args[0]))
            if v.k == 'mdkeys':
                return v
            if name in ('np.concatenate', 'np.hstack') and \
                    v.k == 'list' and v.el is not None and v.el.k == 'ids':
                return V('ids', ax=v.el.ax, c='concat')
            if v.k in ('ids', 'md', 'per', 'pos', 'list', 'order'):
                if name == 'sorted' and v.k == 'order':
                    return v
                if name in ('sorted', 'set', 'frozenset', 'reversed'):
                    return v.with_(fresh=True, lay=('new',))
                if name == 'set' and v.k == 'ids':
                    return v
                return v.with_(fresh=True)
            if v.k == 'index' and name in ('sorted', 'list', 'set'):
                return V('ids', ax=v.ax, own=v.own)
            if v.k == 'tuple' and v.c == 'seq':
                return v
            return TOP if v.k not in ('matrix',) else v
        if name in ('np.intersect1d', 'np.union1d', 'np.unique',
                    'np.setdiff1d', 'np.sort', 'intersect1d', 'union1d',
                    'unique', 'setdiff1d') and e.args:
            # sorted set operations: the elements of the first operand in a
            # re-computed order
            vs = [self.ev(a, env) for a in e.args]
            for kw in e.keywords:
                self.ev(kw.value, env)
            v = vs[0]
            if v.k in ('ids', 'list', 'order'):
                res = v.with_(fresh=True, lay=('new',))
                extra = [kw.arg for kw in e.keywords if kw.arg in (
                    'return_index', 'return_inverse', 'return_counts')
                    and not (isinstance(kw.value, ast.Constant) and
                             not kw.value.value)]
                if extra and name.endswith('unique'):
                    # (sorted ids, positions on the same axis, ...)
                    order = ['return_index', 'return_inverse',
                             'return_counts']
                    rest = tuple(V('pos', ax=v.ax, lay=('new',))
                                 for k_ in order if k_ in extra)
                    return V('tuple', elts=(res,) + rest)
                return res
            return TOP
        if name in ('np.cumsum', 'cumsum') and e.args:
            v = self.ev(e.args[0], env)
            if v.k == 'list' and v.el is not None and v.el.k == 'len':
                return V('pos', ax=v.el.ax, c='bounds')
            return TOP
        if name in ('np.split', 'np.array_split') and len(e.args) >= 2:
            a = self.ev(e.args[0], env)
            b = self.ev(e.args[1], env)
            if a.k in ('pos', 'ids', 'per', 'md') and a.ax and \
                    b.k == 'pos' and b.c == 'bounds' and b.ax:
                self.sink('MATOP', e, 'split-bounds',
                          'ok' if a.ax == b.ax else 'bad',
                          'an array along the %s axis is cut at bounds '
                          'computed from the lengths of the %s axis'
                          % (NAMEAX[a.ax], NAMEAX[b.ax]))
            return V('list', el=a if a.k != 'top' else None)
        if name in ('set', 'list', 'dict') and not e.args:
            return V('list', el=None)
        if name in ('sorted', 'list', 'set', 'tuple', 'iter') and e.args:
            v0 = self.ev(e.args[0], env)
            if v0.k == 'md1':
                return V('mdkeys', c=dotted(e.args[0]))
            if v0.k == 'mdkeys':
                return v0
        if name == 'index_list' and e.args:
            v = self.ev(e.args[0], env)
            return V('index', ax=v.ax if v.k == 'ids' else None, own=v.own,
                     lay=v.lay)
        if name in ('locale.format_string', 'format_string') and \
                len(e.args) >= 2:
            return V('str', el=self.ev(e.args[1], env))
        if name == 'str' and len(e.args) == 1:
            v = self.ev(e.args[0], env)
            if v.k == 'len':
                return V('str', el=v)
        if name in ('np.min_scalar_type', 'min_scalar_type'):
            for a in e.args:
                self.ev(a, env)
            return V('dtype', c='tiny')
        if name == 'len' and e.args:
            v = self.ev(e.args[0], env)
            if v.k in ('ids', 'md', 'per', 'list', 'pos', 'index') and v.ax:
                return V('len', ax=v.ax, own=v.own,
                         ref=v.lay if v.lay and v.lay != ('new',) else None)
            return V('scalar')
        if name == 'isinstance' and len(e.args) == 2:
            v = self.ev(e.args[0], env)
            cls = dotted(e.args[1])
            if cls in ('self.__class__', 'Table', 'cls'):
                if v.k == 'table':
                    return V('const', c=True)
                if v.k in ('list', 'ids', 'tuple', 'md', 'per', 'dict',
                           'none', 'const', 'axis'):
                    return V('const', c=False)
            return V('bool')
        if name == 'zip':
            return V('zip', elts=tuple(self.ev(a, env) for a in e.args))
        if name == 'enumerate' and e.args:
            return V('enum', el=self.ev(e.args[0], env))
        if name == 'range' and e.args:
            v = self.ev(e.args[-1] if len(e.args) == 1 else e.args[1], env)
            if v.k == 'len' and v.ax:
                return V('pos', ax=v.ax)
            return V('list', el=V('scalar'))
        if name in ('np.arange',) and e.args:
            v = self.ev(e.args[0], env)
            if v.k == 'len' and v.ax:
                return V('pos', ax=v.ax)
            return TOP
        if name in ('zeros', 'np.zeros', 'np.empty', 'np.ones') and e.args:
            v = self.ev(e.args[0], env)
            dk = kwarg(e, 'dtype')
            dv = self.ev(dk, env) if dk is not None else None
            dt = V('dtype', c=dtc(dv), own=dv.own, ax=dv.ax) \
                if dv is not None and dtc(dv) else None
            if v.k == 'len' and v.ax:
                return V('per', ax=v.ax, c='alloc', el=dt)
            if v.k == 'tuple' and v.elts and len(v.elts) == 2 and any(
                    x.k == 'len' for x in v.elts):
                return self.shape_tuple(e, v)
            if dt is not None:
                return V('per', c='alloc', el=dt)
            return TOP
        if name in ('csr_matrix', 'csc_matrix', 'coo_matrix',
                    'dok_matrix') and e.args:
            v = self.ev(e.args[0], env)
            for kw in e.keywords:
                self.ev(kw.value, env)
            dk = kwarg(e, 'dtype')
            if dk is not None and name == 'dok_matrix':
                dv = self.ev(dk, env)
                if dtc(dv):
                    res = self._sparse_ctor(e, name, v, env)
                    return res.with_(el=V('dtype', c=dtc(dv)))
            return self._sparse_ctor(e, name, v, env)
        if name in ('hstack', 'vstack') or (
                isinstance(f, ast.Name) and f.id in env and
                env[f.id].k == 'const' and env[f.id].c in ('hstack',
                                                           'vstack')):
            which = name if name in ('hstack', 'vstack') else env[f.id].c
            return self.stack(e, which, env)
        if name == 'itemgetter' and e.args:
            v = self.ev(e.args[0], env)
            return V('getter', c=v.c if v.k == 'const' else None)
        if isinstance(f, ast.Name) and f.id in env:
            fv = env[f.id]
            if fv.k == 'getter' and e.args:
                v = self.ev(e.args[0], env)
                if v.k == 'tuple' and v.elts and isinstance(fv.c, int):
                    return v.elts[fv.c]
                return TOP
            if fv.k == 'func':
                return self.call_local(fv, e, env)
            if fv.k == 'class':
                return self.ctor(e, env, 'cls')
            if fv.k == 'method' and fv.c and isinstance(fv.node,
                                                        ast.Attribute):
                # a bound method kept in a variable:  g = self.m ; g(a, b)
                recv = self.ev(fv.node.value, env)
                if recv.k == 'table':
                    res = None
                    for mname in (fv.c if isinstance(fv.c, tuple)
                                  else (fv.c,)):
                        fnode = ast.copy_location(ast.Attribute(
                            value=fv.node.value, attr=mname,
                            ctx=ast.Load()), fv.node)
                        call2 = ast.copy_location(ast.Call(
                            func=fnode, args=e.args, keywords=e.keywords), e)
                        r = self.table_method(call2, recv, mname, env)
                        res = r if res is None else join(res, r)
                    return res if res is not None else TOP
        if name in ('Table',):
            return self.ctor(e, env, 'Table')
        if name in ('self.__class__', 'cls') or (
                name and name.endswith('.__class__')):
            return self.ctor(e, env, name)
        if name in ('_filter', '_transform', 'subsample'):
            return self.kernel(e, name, env)
        if name == 'errcheck':
            for a in e.args:
                self.ev(a, env)
            # errcheck raises under the configured profile: it is an exit,
            # and a table whose ids were replaced must not reach it with the
            # old lookup still installed
            if not self.depth:
                for k, v in env.items():
                    if k.startswith('$stale:') and v.c:
                        _, owner, ax = k.split(':')
                        self.sink('REINDEX', e, 'reindex-before-errcheck:%s'
                                  % ('_sample_ids' if ax == S
                                     else '_observation_ids'), 'bad',
                                  'errcheck (which raises under the '
                                  'configured error profile) is reached '
                                  'while the %s ids of %s are replaced and '
                                  'the lookup is not rebuilt yet: an '
                                  'in-place operation that is refused '
                                  'leaves index()/exists() answering for '
                                  'the old ids' % (NAMEAX[ax], owner))
            return TOP
        if (isinstance(f, ast.Attribute) and f.attr == 'reduce' or name in (
                'np.sum', 'np.max', 'np.min', 'np.mean', 'np.amax',
                'np.amin', 'np.prod', 'np.any', 'np.all', 'np.median',
                'np.count_nonzero')) and e.args and \
                kwarg(e, 'axis') is not None:
            m0 = self.ev(e.args[0], env)
            if m0.k == 'matrix':
                # a fold of the matrix along dimension n, like M.sum(axis=n)
                v = self.ev(kwarg(e, 'axis'), env)
                n = v.c if v.k in ('const', 'axisnum') else None
                if n in (0, 1):
                    rows_ax, cols_ax = (S, O) if m0.flip else (O, S)
                    return V('per', ax=cols_ax if n == 0 else rows_ax,
                             own=m0.own)
                return TOP
        if isinstance(f, ast.Attribute):
            recv = self.ev(f.value, env)
            if recv.k == 'table':
                return self.table_method(e, recv, f.attr, env)
            if recv.k == 'matrix':
                return self.matrix_method(e, recv, f.attr, env)
            if recv.k in ('ids', 'md', 'per', 'list', 'pos', 'index',
                          'order', 'dict'):
                return self.collection_method(e, recv, f.attr, env)
            if recv.k == 'md1' and f.attr in ('keys', 'items', 'get',
                                              'values'):
                if f.attr == 'keys':
                    return V('mdkeys', c=dotted(f.value))
                if f.attr == 'items':
                    return V('mditems', c=dotted(f.value))
                for a in e.args:
                    self.ev(a, env)
                return TOP
            if recv.k == 'recdict' and f.attr == 'items':
                return V('recdict-items', elts=recv.elts)
            if recv.k == 'class' and f.attr in ('_to_sparse',):
                for a in e.args:
                    self.ev(a, env)
                return V('matrix', fresh=True, c='unoriented')
        ik, ck = kwarg(e, 'index'), kwarg(e, 'columns')
        if ik is not None and e.args:
            first = self.ev(e.args[0], env)
            iv = self.ev(ik, env)
            cv = self.ev(ck, env) if ck is not None else TOP
            if first.k in ('matrix', 'dense'):
                flip = first.flip if first.k == 'matrix' else False
                rows_ax, cols_ax = (S, O) if flip else (O, S)
                for lab, v, want in (('index', iv, rows_ax),
                                     ('columns', cv, cols_ax)):
                    if v.k == 'ids' and v.ax:
                        self.sink('CTOR', e, 'dataframe:%s' % lab,
                                  'ok' if v.ax == want else 'bad',
                                  '%s ids label the %s of a matrix whose %s '
                                  'are %ss' % (NAMEAX[v.ax], lab, lab,
                                               NAMEAX[want]))
            elif first.k == 'list' and first.ax and iv.k == 'ids' and iv.ax:
                self.sink('CTOR', e, 'dataframe:index',
                          'ok' if iv.ax == first.ax else 'bad',
                          'rows built per %s are labelled with %s ids'
                          % (NAMEAX[first.ax], NAMEAX[iv.ax]))
        for a in e.args:
            self.ev(a, env)
        for kw in e.keywords:
            self.ev(kw.value, env)
        return TOP

    def shape_tuple(self, e, v, maj=None):
        res = self._shape_tuple(e, v, maj)
        r, c = v.elts
        if res.k == 'matrix' and (r.ref or c.ref) and r.ax and c.ax and \
                r.ax != c.ax:
            lo = r.ref if r.ax == O else c.ref
            ls = r.ref if r.ax == S else c.ref
            if lo or ls:
                res = res.with_(lay=(lo, ls))
        # a dimension of constant length 0 holds no entries: any order
        z = [x.k == 'const' and x.c == 0 for x in (r, c)]
        if res.k == 'matrix' and any(z):
            known = c.ax if z[0] else r.ax
            if known in (O, S):
                empty_ax = inv(known)
                lay = (('empty',), None) if empty_ax == O else (
                    None, ('empty',))
                res = res.with_(lay=lay)
        return res

    def _shape_tuple(self, e, v, maj=None):
        r, c = v.elts
        if r.ax and c.ax:
            if (r.ax, c.ax) == (O, S):
                self.sink('SHAPE', e, 'shape-tuple', 'ok',
                          '(observations, samples)')
                return V('matrix', maj=maj, fresh=True)
            if (r.ax, c.ax) == (S, O):
                # a transposed allocation is legitimate only if it is
                # transposed back later; record orientation
                return V('matrix', maj=maj, flip=True, fresh=True)
            self.sink('SHAPE', e, 'shape-tuple', 'bad',
                      'shape (%s, %s) does not pair one dimension per axis'
                      % (NAMEAX[r.ax], NAMEAX[c.ax]))
            return V('matrix', maj=maj, fresh=True)
        if r.ax or c.ax:
            flip = (r.ax == S) if r.ax else (c.ax == O)
            self.sink('SHAPE', e, 'shape-tuple', 'unknown',
                      'one dimension unresolved; orientation taken from '
                      'the other')
            return V('matrix', maj=maj, flip=flip, fresh=True)
        self.sink('SHAPE', e, 'shape-tuple', 'unknown', 'dimension axis '
                  'unresolved')
        return V('matrix', maj=maj, fresh=True, c='unoriented')

    def label_check(self, e, text, val):
        """'Num samples: ' + <count>: the axis named by a report label is
        the axis of the count it is printed with (counts of a transposed
        table are the other axis of the table that was passed in)."""
        t = text.lower()
        has_s, has_o = 'sample' in t, 'observation' in t
        if has_s == has_o:
            return
        inner = val.el if val.k == 'str' and val.el is not None else val
        if inner.k != 'len' or inner.ax not in (O, S) or not inner.own:
            return
        ax = inner.ax
        if inner.own.endswith('\u1d40'):
            ax = inv(ax)
        want = S if has_s else O
        self.sink('LABEL', e, 'label:%s' % text.strip().rstrip(':'),
                  'ok' if ax == want else 'bad',
                  'the label %r is printed with the number of %ss of the '
                  'table passed in' % (text.strip(), NAMEAX[ax]))

    def _sparse_ctor(self, e, name, v, env):
        maj = {'csr_matrix': O, 'csc_matrix': S}.get(name)
        if v.k == 'matrix':
            return v.with_(maj=maj, fresh=True)
        if v.k == 'tuple' and v.elts and len(v.elts) == 2 and any(
                x.k == 'len' for x in v.elts):
            return self.shape_tuple(e, v, maj)
        shp = kwarg(e, 'shape')
        if shp is not None:
            sv = self.ev(shp, env)
            if sv.k == 'tuple' and sv.elts and len(sv.elts) == 2 and \
                    any(x.k == 'len' for x in sv.elts):
                return self.shape_tuple(e, sv, maj)
        return V('matrix', maj=maj, fresh=True, c='unoriented')

    def dict_key(self, node, name, key, env):
        """A dictionary keyed by ids collects ids of one axis only: the same
        text may be an id on both axes."""
        cur = env.get(name)
        if cur is None or cur.k != 'dict':
            return
        kax = key.ax if key.k in ('id', 'ids') else None
        if kax not in (O, S):
            return
        if cur.ax in (O, S) and cur.ax != kax:
            self.sink('IDAPI', node, 'dict-keys:%s' % name, 'bad',
                      'the dictionary `%s` is keyed by %s ids and receives '
                      'a key that is a %s id: an id text present on both '
                      'axes makes the entries overwrite each other'
                      % (name, NAMEAX[cur.ax], NAMEAX[kax]))
        else:
            if cur.ax in (O, S):
                self.sink('IDAPI', node, 'dict-keys:%s' % name, 'ok',
                          'keys of one axis')
            env[name] = cur.with_(ax=kax)

    def dtype_store(self, st, target, val, env):
        """A value stored into an array / accumulator allocated with an
        explicit dtype."""
        if not isinstance(target, ast.Subscript):
            return
        base = self.ev(target.value, env)
        dt = base.el if base.k in ('per', 'matrix') and base.el is not None \
            and base.el.k == 'dtype' else None
        if dt is None:
            return
        name = dotted(target.value) or '?'
        if dt.c in ('int', 'mixed', 'narrow'):
            if val.k == 'scalar' or (val.k == 'per' and val.c != 'alloc'):
                self.sink('DTYPE', st, 'store:%s' % name, 'bad',
                          'matrix values (floating point) are stored into '
                          '`%s`, which was allocated with %s dtype: the '
                          'fraction is truncated'
                          % (name, {'int': 'an integer',
                                    'mixed': 'a possibly integer',
                                    'narrow': 'a narrower float'}[dt.c]))
            elif val.k in ('len', 'pos1', 'pos', 'bool') or (
                    val.k == 'const' and isinstance(val.c, int)):
                self.sink('DTYPE', st, 'store:%s' % name, 'ok',
                          'counts / positions stored into an integer array')
        elif dt.c == 'tiny':
            if val.k in ('pos', 'pos1', 'len', 'scalar', 'per', 'index') or \
                    val.k != 'bool':
                self.sink('DTYPE', st, 'store:%s' % name, 'bad',
                          '`%s` is allocated with a one- or two-byte / '
                          'data-dependent integer type: positions and '
                          'counts beyond its range wrap around silently'
                          % name)
        elif dt.c == 'float':
            if val.k in ('scalar', 'per', 'len', 'const'):
                self.sink('DTYPE', st, 'store:%s' % name, 'ok',
                          'stored into a float64 / table-dtype array')
        elif dt.c == 'idwidth':
            if val.k in ('ids', 'id'):
                same = val.k == 'ids' and val.own and val.own == dt.own and \
                    val.ax == dt.ax
                self.sink('DTYPE', st, 'store:%s' % name,
                          'ok' if same else 'bad',
                          'ids are stored into `%s`, allocated with the '
                          'fixed-width dtype of the ids of table %r: a '
                          'longer id from another table is truncated'
                          % (name, dt.own))

    def stack(self, e, which, env):
        arg = self.ev(e.args[0], env) if e.args else TOP
        mats = []
        if e.args and isinstance(e.args[0], (ast.List, ast.Tuple)):
            mats = [self.ev(x, env) for x in e.args[0].elts]
        elif arg.k == 'tuple' and arg.elts:
            mats = list(arg.elts)
        elif arg.k == 'list' and arg.el is not None:
            mats = [arg.el]
        flip = None
        for m in mats:
            if m.k == 'matrix' and m.c != 'unoriented':
                if flip is not None and m.flip != flip:
                    self.sink('MATOP', e, 'stack-orientation', 'bad',
                              'matrices of different orientation '
                              '(observations x samples vs samples x '
                              'observations) are stacked together')
                flip = m.flip if flip is None else flip
        grows = None
        if flip is not None:
            # hstack grows columns, vstack grows rows
            rows_ax, cols_ax = (S, O) if flip else (O, S)
            grows = cols_ax if which == 'hstack' else rows_ax
        lay = None
        if grows in (O, S) and mats:
            keep = inv(grows)
            d = 0 if keep == O else 1
            cur = Ellipsis
            for m in mats:
                ml = m.lay[d] if m.k == 'matrix' and isinstance(
                    m.lay, tuple) and len(m.lay) == 2 else None
                if cur is Ellipsis:
                    cur = ml
                elif cur is None or ml is None:
                    cur = None
                else:
                    cur = _join_lay(cur, ml)
            if cur is not Ellipsis and cur is not None:
                lay = (cur, None) if keep == O else (None, cur)
            # blocks follow one another along the grown axis
            gd = 0 if grows == O else 1
            if e.args and isinstance(e.args[0], (ast.List, ast.Tuple)) and \
                    len(mats) >= 2:
                parts = [m.lay[gd] if m.k == 'matrix' and isinstance(
                    m.lay, tuple) and len(m.lay) == 2 else None
                    for m in mats]
                if all(parts):
                    cat = ('cat',) + tuple(parts)
                    base = list(lay) if lay else [None, None]
                    base[gd] = cat
                    lay = tuple(base)
        return V('matrix', flip=bool(flip), fresh=True,
                 c=('grows', which, grows), lay=lay)

    def call_local(self, fv, e, env):
        node = fv.node
        if isinstance(node, ast.Lambda):
            params = [a.arg for a in node.args.args]
            e2 = dict(env)
            for p, a in zip(params, e.args):
                e2[p] = self.ev(a, env)
            return self.ev(node.body, e2)
        if self.depth > 3:
            return TOP
        params = param_names(node)
        fixed = {}
        for p, a in zip(params, e.args):
            fixed[p] = self.ev(a, env)
        for kw in e.keywords:
            if kw.arg in params:
                fixed[kw.arg] = self.ev(kw.value, env)
        sub = AxisInterp(self.repo, self.rel, node, fixed=fixed,
                         qual=self.qual, depth=self.depth + 1,
                         closure=env)
        sub.spec = self.spec
        sub.loop_axis = list(self.loop_axis)
        sub.run()
        self.sinks.extend(sub.sinks)
        if not sub.returns:
            return NONE
        r = sub.returns[0]
        for x in sub.returns[1:]:
            r = join(r, x)
        return r

    # ---- Table methods ---------------------------------------------------
    def axis_arg(self, e, meth, env, pos=None):
        """Axis denoted by the ``axis`` argument of a Table method call."""
        a = kwarg(e, 'axis')
        if a is None and pos is not None and len(e.args) > pos:
            a = e.args[pos]
        if a is None:
            d = self.table_default_axis(meth)
            return d if d in (O, S) else ('whole' if d else None), None
        v = self.ev(a, env)
        ax = self.axis_of_value(v)
        if ax is None and v.k == 'const' and isinstance(v.c, str):
            return v.c, a
        return ax, a

    def _axis_candidates(self, an, env):
        """Axis names a loop variable may take: the constant elements of the
        list it iterates (appends included), when resolvable."""
        if not isinstance(an, ast.Name):
            return set()
        v = env.get(an.id)
        out = set()
        if v is not None and getattr(v, 'elts', None):
            for x in v.elts:
                if getattr(x, 'k', None) == 'axis' and x.ax in (O, S):
                    out.add(NAMEAX[x.ax])
        return out

    def id_check(self, e, idv, ax, what):
        if idv is None or ax not in (O, S):
            return
        if idv.k in ('id', 'ids') and idv.ax:
            self.sink('IDAPI', e, what,
                      'ok' if idv.ax == ax else 'bad',
                      'id(s) of the %s axis used with axis=%s'
                      % (NAMEAX[idv.ax], NAMEAX[ax]))
        elif idv.k == 'list' and idv.el is not None and \
                idv.el.k == 'id' and idv.el.ax:
            self.sink('IDAPI', e, what,
                      'ok' if idv.el.ax == ax else 'bad',
                      'ids of the %s axis used with axis=%s'
                      % (NAMEAX[idv.el.ax], NAMEAX[ax]))

    def named_owner(self, recv, node, env):
        if recv.own:
            return recv.own
        if isinstance(node, ast.Name):
            v = env.get('$ver:' + node.id)
            return '%s#%s' % (node.id, v.c if v is not None else 0)
        return None

    @staticmethod
    def _pos_args(e, meth):
        """Arguments of a Table method call in parameter order, whether
        they are written positionally or by keyword (contiguous prefix)."""
        from .normalize import TABLE_SIGNATURES
        sig = TABLE_SIGNATURES.get(meth)
        args = list(e.args)
        if sig and not any(isinstance(a, ast.Starred) for a in args):
            kw = {k.arg: k.value for k in e.keywords if k.arg}
            while len(args) < len(sig) and sig[len(args)] in kw:
                args.append(kw[sig[len(args)]])
        return args

    def table_method(self, e, recv, meth, env):
        own = self.named_owner(recv, e.func.value, env)
        args = self._pos_args(e, meth)
        if own and own.endswith("'") and (
                meth in ('add_metadata', 'del_metadata', '_cast_metadata',
                         '_index_ids') or (
                    meth in ('filter', 'transform', 'norm', 'pa', 'rankdata',
                             'update_ids', 'remove_empty') and not (
                        isinstance(kwarg(e, 'inplace'), ast.Constant) and
                        kwarg(e, 'inplace').value is False))):
            env['$dirty:' + own] = V('const', c=True)
        if meth == 'ids':
            ax, an = self.axis_arg(e, meth, env, 0)
            sym = ('sym', an.id) if ax not in (O, S) and isinstance(
                an, ast.Name) else None
            return V('ids', ax=ax if ax in (O, S) else None, own=own, c=sym,
                     lay=vlay(recv, own, ax))
        if meth == 'metadata':
            ax, _ = self.axis_arg(e, meth, env, 1)
            idn = kwarg(e, 'id') or (args[0] if args else None)
            if idn is not None and not (isinstance(idn, ast.Constant) and
                                        idn.value is None):
                idv = self.ev(idn, env)
                self.id_check(e, idv, ax, 'metadata(id, axis)')
                return V('md1', ax=ax if ax in (O, S) else None, own=own)
            return V('md', ax=ax if ax in (O, S) else None, own=own,
                     lay=vlay(recv, own, ax))
        if meth == '_index':
            ax, _ = self.axis_arg(e, meth, env, 0)
            return V('index', ax=ax if ax in (O, S) else None, own=own,
                     lay=vlay(recv, own, ax))
        if meth in ('index', 'exists', 'data'):
            ax, _ = self.axis_arg(e, meth, env, 1)
            idv = self.ev(args[0], env) if args else None
            self.id_check(e, idv, ax, '%s(id, axis)' % meth)
            if meth == 'index':
                return V('pos1', ax=ax if ax in (O, S) else None, own=own,
                         ref=vlay(recv, own, ax))
            if meth == 'exists':
                return V('bool')
            return V('per', ax=inv(ax) if ax in (O, S) else None, own=own,
                     lay=vlay(recv, own, inv(ax) if ax in (O, S) else None))
        if meth == 'length':
            ax, _ = self.axis_arg(e, meth, env, 0)
            return V('len', ax=ax if ax in (O, S) else None, own=own)
        if meth in ('sum', 'min', 'max', 'nonzero_counts'):
            ax, _ = self.axis_arg(e, meth, env, 0)
            if ax in (O, S):
                return V('per', ax=ax, own=own)
            return V('scalar')
        if meth == 'reduce':
            ax, _ = self.axis_arg(e, meth, env, 1)
            return V('per', ax=ax if ax in (O, S) else None, own=own)
        if meth in ('iter', 'iter_data', 'iter_pairwise'):
            ax, _ = self.axis_arg(e, meth, env, 1)
            ax = ax if ax in (O, S) else None
            vec = V('per', ax=inv(ax), own=own)
            if meth == 'iter_data':
                return V('iter', el=vec, ax=ax)
            return V('iter', el=V('tuple', elts=(
                vec, V('id', ax=ax, own=own), V('md1', ax=ax, own=own))),
                ax=ax)
        if meth == '_iter_obs':
            return V('iter', el=V('per', ax=S, own=own), ax=O)
        if meth == '_iter_samp':
            return V('iter', el=V('per', ax=O, own=own), ax=S)
        if meth == '_get_sparse_data':
            ax, _ = self.axis_arg(e, meth, env, 0)
            return V('matrix', own=own, maj=ax if ax in (O, S) else None,
                     fresh=True)
        if meth == '_invert_axis':
            v = self.ev(args[0], env) if args else TOP
            ax = self.axis_of_value(v)
            if ax:
                return V('axis', ax=inv(ax), c=NAMEAX[inv(ax)])
            return V('axis')
        if meth == '_axis_to_num':
            a = kwarg(e, 'axis') or (args[0] if args else None)
            v = self.ev(a, env) if a is not None else TOP
            ax = self.axis_of_value(v)
            m = self.axis_num_map()
            if ax and m:
                return V('axisnum', ax=ax, c=m.get(NAMEAX[ax]))
            return V('axisnum')
        if meth == 'group_metadata':
            return TOP
        if meth == 'copy':
            return V('table', own=own + "'" if own else None, fresh=True)
        if meth == 'transpose':
            return V('table', own=own + '\u1d40' if own and not
                     own.endswith('\u1d40') else None, fresh=True,
                     c='transposed')
        if meth == 'partition':
            ax, _ = self.axis_arg(e, meth, env, 1)
            for a in args:
                self.ev(a, env)
            return V('iter', el=V('tuple', elts=(
                TOP, V('table', own=None, fresh=True))),
                ax=ax if ax in (O, S) else None)
        if meth == 'sort_order':
            ax, an = self.axis_arg(e, meth, env, 1)
            order = self.ev(args[0], env) if args else None
            if ax not in (O, S) and isinstance(an, ast.Name) and \
                    order is not None and order.k == 'ids' and \
                    order.ax is None and order.c == ('sym', an.id):
                self.sink('IDAPI', e, 'sort_order(order, axis)', 'ok',
                          'order and axis are taken from the same axis '
                          'variable %s' % an.id)
            elif ax not in (O, S) and isinstance(an, ast.Name) and \
                    order is not None and order.k == 'ids' and \
                    isinstance(order.c, tuple) and order.c[0] == 'sym':
                self.sink('IDAPI', e, 'sort_order(order, axis)', 'bad',
                          'ids of axis variable %s are ordered along axis '
                          'variable %s' % (order.c[1], an.id))
            self.id_check(e, order, ax, 'sort_order(order, axis)')
            if self.qual == 'Table.align_to':
                # asked to align one axis, only that axis is re-ordered
                want = dict(kv.split('=', 1) for kv in (self.spec or ''
                                                        ).split(',')
                            if '=' in kv).get('axis')
                if want in NAMEAX.values() and ax in (O, S):
                    self.sink('ORDER', e, 'align-axis',
                              'ok' if NAMEAX[ax] == want else 'bad',
                              'align_to(axis=%r) re-orders the %s axis'
                              % (want, NAMEAX[ax]))
                elif want in NAMEAX.values():
                    av = self.ev(an, env) if an is not None else None
                    both = av is not None and av.k == 'axis' and \
                        av.ax is None
                    self.sink('ORDER', e, 'align-axis',
                              'bad' if both else 'unknown',
                              'align_to(axis=%r) walks a list of axes that '
                              'can hold the other axis as well: an axis '
                              'that was not asked for is re-ordered' % want)
            if self.qual == 'Table.align_to' and order is not None:
                # contract of align_to: along every aligned axis the result
                # follows the order of the table it is aligned to
                ol_ = order.lay
                if order.k == 'ids' and ol_ and ol_[0] == 'tbl' and \
                        not str(ol_[1]).startswith('self'):
                    self.sink('ORDER', e, 'align-order', 'ok',
                              'ordered by the ids of `%s` as stored' % ol_[1])
                elif order.k == 'ids' and ol_ and (
                        ol_[0] in ('new', 'nat') or
                        ol_[0] == 'tbl' and str(ol_[1]).startswith('self')):
                    self.sink('ORDER', e, 'align-order', 'bad',
                              'the aligned axis is put in %s order, not in '
                              'the order of the other table\'s ids'
                              % ('a re-computed (sorted / set)'
                                 if ol_[0] != 'tbl' else 'the receiver\'s'))
                else:
                    self.sink('ORDER', e, 'align-order', 'unknown',
                              'order of the target ids not resolved')
            lay = None
            if ax in (O, S):
                ol = order.lay if order is not None and order.lay and \
                    order.lay[0] in ('loc', 'tbl', 'nat') else None
                other = vlay(recv, own, inv(ax))
                lay = (ol, other) if ax == O else (other, ol)
                if not any(lay):
                    lay = None
            return V('table', own=None, fresh=True, lay=lay)
        if meth == 'sort':
            ax, _ = self.axis_arg(e, meth, env, 1)
            for a in args:
                self.ev(a, env)
            lay = None
            if ax in (O, S) and not args and kwarg(e, 'sort_f') is None:
                nl = ('nat', own or '?', ax)
                other = vlay(recv, own, inv(ax))
                lay = (nl, other) if ax == O else (other, nl)
            return V('table', own=None, fresh=True, lay=lay)
        if meth == 'filter':
            ax, _ = self.axis_arg(e, meth, env, 1)
            keep = self.ev(args[0], env) if args else None
            self.id_check(e, keep, ax, 'filter(ids, axis)')
            if keep is not None and keep.k == 'func':
                pass
            inplace = kwarg(e, 'inplace')
            return V('table', own=None, fresh=True)
        if meth in ('_union_id_order', '_intersect_id_order'):
            a = self.ev(args[0], env) if len(args) > 0 else TOP
            b = self.ev(args[1], env) if len(args) > 1 else TOP
            if a.k == 'ids' and b.k == 'ids' and a.ax and b.ax:
                self.sink('IDAPI', e, '%s(a, b)' % meth,
                          'ok' if a.ax == b.ax else 'bad',
                          'id orders of the %s and %s axes are combined'
                          % (NAMEAX[a.ax], NAMEAX[b.ax]))
                return V('order', ax=a.ax if a.ax == b.ax else None,
                         lay=('new',))
            return V('order', lay=('new',))
        if meth == '_conv_to_self_type':
            return self.conv_to_self_type(e, env)
        if meth == '_to_dense' and args:
            return self.ev(args[0], env)
        if meth in ('_get_row', '_get_col'):
            return V('per', ax=S if meth == '_get_row' else O, own=own)
        if meth in ('is_empty',):
            return V('bool')
        if meth in TABLE_RETURNING:
            for a in args:
                self.ev(a, env)
            for kw in e.keywords:
                self.ev(kw.value, env)
            return V('table', own=None, fresh=True)
        if meth in ('_index_ids',):
            self.index_ids(e, recv, env)
            return NONE
        for a in args:
            self.ev(a, env)
        for kw in e.keywords:
            self.ev(kw.value, env)
        return TOP

    def axis_num_map(self):
        if hasattr(self, '_numap'):
            return self._numap
        m = {}
        try:
            from .consteval import axis_num_mapping
            m = axis_num_mapping(self.repo)
        except Exception:
            m = {}
        self._numap = m
        return m

    def index_ids(self, e, recv, env):
        """X._index_ids(observation_index, sample_index)"""
        slots = [('observation_index', O), ('sample_index', S)]
        owner = dotted(e.func.value) if isinstance(e.func,
                                                   ast.Attribute) else None
        for i, (pname, ax) in enumerate(slots):
            a = kwarg(e, pname) or (e.args[i] if len(e.args) > i else None)
            if a is None:
                continue
            v = self.ev(a, env)
            key = '$stale:%s:%s' % (owner, ax)
            if v.k == 'none':
                if key in env:
                    env[key] = V('const', c=False)
                continue
            if v.k == 'index' and v.ax:
                self.sink('REINDEX', e, 'index-slot:%s' % pname,
                          'ok' if v.ax == ax else 'bad',
                          'an index of the %s axis is passed as %s'
                          % (NAMEAX[v.ax], pname))
            else:
                self.sink('REINDEX', e, 'index-slot:%s' % pname, 'unknown',
                          'index axis unresolved')

    def conv_to_self_type(self, e, env):
        vals = self.ev(e.args[0], env) if e.args else TOP
        tr = kwarg(e, 'transpose') or (e.args[1] if len(e.args) > 1
                                       else None)
        trv = self.ev(tr, env) if tr is not None else V('const', c=False)
        if vals.k == 'matrix':
            return vals
        if vals.k == 'per':
            return V('matrix', fresh=True, c='unoriented')
        if vals.k == 'list' and vals.el is not None and \
                vals.el.k in ('per', 'matrix') and vals.ax:
            # list over axis A of vectors indexed by the other axis:
            # rows = A; needs transpose iff A is the sample axis
            rows = vals.ax
            vec_ax = vals.el.ax if vals.el.k == 'per' else None
            if trv.k == 'const' and isinstance(trv.c, bool):
                flip_after = (rows == S) != trv.c
                ok = not flip_after
                if vec_ax and vec_ax != inv(rows):
                    self.sink('MATOP', e, 'assemble-vectors', 'bad',
                              'vectors indexed by the %s axis are stacked '
                              'along the %s axis' % (NAMEAX[vec_ax],
                                                     NAMEAX[rows]))
                else:
                    self.sink('MATOP', e, 'assemble-vectors',
                              'ok' if ok else 'bad',
                              'one vector per %s stacked as rows, '
                              'transpose=%s%s' % (
                                  NAMEAX[rows], trv.c,
                                  '' if ok else ': the result has %ss as '
                                  'rows' % NAMEAX[rows]))
                lay = None
                if vals.lay and rows in (O, S):
                    lay = (vals.lay, None) if rows == O else (None, vals.lay)
                return V('matrix', fresh=True, flip=flip_after, lay=lay)
            self.sink('MATOP', e, 'assemble-vectors', 'unknown',
                      'transpose flag unresolved')
            return V('matrix', fresh=True, c='unoriented')
        return V('matrix', fresh=True, c='unoriented')

    # ---- matrix / collection methods ------------------------------------
    def matrix_method(self, e, recv, meth, env):
        for a in e.args:
            self.ev(a, env)
        if meth in ('tocsr',):
            return recv.with_(maj=O if not recv.flip else S)
        if meth in ('tocsc',):
            return recv.with_(maj=S if not recv.flip else O)
        if meth == 'asformat' and e.args:
            v = self.ev(e.args[0], env)
            maj = {'csr': O, 'csc': S}.get(v.c) if v.k == 'const' else '?'
            return recv.with_(maj=maj)
        if meth in ('tocoo', 'copy', 'astype', 'todok', 'tolil'):
            return recv.with_(fresh=True)
        if meth == 'transpose':
            return recv.with_(flip=not recv.flip, fresh=True,
                              maj=inv(recv.maj) if recv.maj else None)
        if meth == 'sum':
            a = kwarg(e, 'axis') or (e.args[0] if e.args else None)
            v = self.ev(a, env) if a is not None else NONE
            n = v.c if v.k in ('const', 'axisnum') else None
            if n in (0, 1):
                # sum(axis=0) collapses rows: one value per column
                rows_ax, cols_ax = (S, O) if recv.flip else (O, S)
                return V('per', ax=cols_ax if n == 0 else rows_ax,
                         own=recv.own)
            return V('scalar')
        if meth in ('toarray', 'todense'):
            return V('matrix', flip=recv.flip, own=recv.own, c='dense')
        if meth in ('getrow', 'getcol'):
            return V('per', ax=S if meth == 'getrow' else O, own=recv.own)
        return TOP

    def collection_method(self, e, recv, meth, env):
        args = [self.ev(a, env) for a in e.args]
        if meth in ('copy', 'tolist', 'ravel', 'flatten', 'astype', 'view',
                    'reshape', 'squeeze'):
            return recv.with_(fresh=True)
        if meth in ('items',) and recv.k in ('order', 'index'):
            return V('order', ax=recv.ax, lay=recv.lay)
        if meth == 'items' and recv.k == 'dict':
            return V('iter', el=V('tuple', elts=(
                V('id', ax=recv.ax) if recv.ax else TOP, recv.el or TOP)),
                ax=recv.ax)
        if meth == 'get' and recv.k == 'index' and args:
            if args[0].k == 'id' and args[0].ax and recv.ax:
                self.sink('IDAPI', e, 'index-lookup',
                          'ok' if args[0].ax == recv.ax else 'bad',
                          'id of the %s axis looked up in the %s index'
                          % (NAMEAX[args[0].ax], NAMEAX[recv.ax]))
            return V('pos1', ax=recv.ax, own=recv.own, ref=recv.lay)
        if meth in ('all', 'any', 'sum', 'min', 'max', 'size'):
            return V('scalar')
        if meth in ('keys',) and recv.k in ('index', 'order', 'dict'):
            return V('ids', ax=recv.ax, own=recv.own)
        return TOP

    # ---- constructor / kernels --------------------------------------
    CTOR_SLOTS = ['data', 'observation_ids', 'sample_ids',
                  'observation_metadata', 'sample_metadata', 'table_id',
                  'type', 'create_date', 'generated_by',
                  'observation_group_metadata', 'sample_group_metadata',
                  'validate', 'observation_index', 'sample_index']
    SLOT_AX = {'observation_ids': ('ids', O), 'sample_ids': ('ids', S),
               'observation_metadata': ('md', O),
               'sample_metadata': ('md', S),
               'observation_index': ('index', O),
               'sample_index': ('index', S),
               'observation_group_metadata': ('gmd', O),
               'sample_group_metadata': ('gmd', S)}

    def ctor_slots(self):
        try:
            f = self.repo.func('biom/table.py', 'Table.__init__')
            return [p for p in param_names(f) if p != 'self']
        except Exception:
            return self.CTOR_SLOTS

    def ctor(self, e, env, how):
        slots = self.ctor_slots()
        bound = {}
        i = 0
        for a in e.args:
            if isinstance(a, ast.Starred):
                # *pair: a tuple whose elements are known fills one slot
                # per element
                sv = self.ev(a.value, env)
                if sv.k == 'tuple' and sv.elts:
                    for el in sv.elts:
                        if i < len(slots):
                            bound[slots[i]] = (a, el)
                        i += 1
                    continue
                break
            if i < len(slots):
                bound[slots[i]] = (a, self.ev(a, env))
            i += 1
        for kw in e.keywords:
            if kw.arg is None:
                # **indices built as {'observation_index': ...}
                v = self.ev(kw.value, env)
                if v.k == 'dict' and isinstance(v.c, tuple):
                    for k2, v2 in v.c:
                        bound[k2] = (kw.value, v2)
                continue
            bound[kw.arg] = (kw.value, self.ev(kw.value, env))
        data = bound.get('data', (None, TOP))[1]
        flipped = data.flip if data.k == 'matrix' else False
        unoriented = data.k != 'matrix' or data.c == 'unoriented'
        if data.k == 'matrix' and isinstance(data.c, tuple) and \
                data.c[0] == 'grows':
            unoriented = False
        resolved = 0
        for slot, (kind, sax) in self.SLOT_AX.items():
            if slot not in bound:
                continue
            node, v = bound[slot]
            if v.k == 'none':
                continue
            vax = v.ax
            if v.k == 'list' and v.el is not None and v.ax is None and \
                    v.el.k in ('id', 'md1'):
                vax = v.el.ax
            if v.k == 'list' and v.ax is not None:
                vax = v.ax
            if v.k == 'order':
                vax = v.ax
            if v.k == 'dict' and v.ax:
                vax = v.ax
            want = inv(sax) if flipped else sax
            role = 'slot:%s' % slot
            if isinstance(v.c, tuple) and v.c and v.c[0] == 'conflict':
                self.sink('CTOR', e, role, 'bad',
                          'the value passed in the %s slot is of the %s '
                          'axis on one path and of the %s axis on another'
                          % (slot, NAMEAX[v.c[1]], NAMEAX[v.c[2]]))
                continue
            if vax is None or v.k in ('top',):
                self.sink('CTOR', e, role, 'unknown',
                          'argument axis unresolved (%r)' % v)
                continue
            resolved += 1
            if vax == want:
                self.sink('CTOR', e, role, 'ok',
                          '%s-axis value in the %s slot%s'
                          % (NAMEAX[vax], slot,
                             ' (matrix transposed)' if flipped else ''))
            else:
                self.sink('CTOR', e, role, 'bad',
                          'a value of the %s axis (%s) is passed in the %s '
                          'slot%s' % (NAMEAX[vax], unparse(node, 50), slot,
                                      ' of a transposed matrix'
                                      if flipped else ''))
        if data.k == 'matrix' and isinstance(data.lay, tuple) and \
                len(data.lay) == 2:
            ml = (data.lay[1], data.lay[0]) if flipped else data.lay
            for slot, d in (('observation_ids', 0), ('sample_ids', 1)):
                if slot in bound:
                    v = bound[slot][1]
                    if v.lay and ml[d]:
                        self.sink('ORDER', e, 'label-order:%s' % slot,
                                  'ok' if v.lay == ml[d] else 'bad',
                                  'ids in order %s label a matrix laid out '
                                  'in order %s' % (_sym(v.lay),
                                                   _sym(ml[d])))
        for idslot, mdslot in (('observation_ids', 'observation_metadata'),
                               ('sample_ids', 'sample_metadata')):
            if idslot in bound and mdslot in bound:
                a, b = bound[idslot][1], bound[mdslot][1]
                if a.lay and b.lay and b.k in ('md', 'list'):
                    self.sink('ORDER', e, 'metadata-order:%s' % mdslot,
                              'ok' if a.lay == b.lay else 'bad',
                              'metadata laid out in order %s accompanies '
                              'ids in order %s' % (_sym(b.lay), _sym(a.lay)))
        for islot, idslot in (('observation_index', 'observation_ids'),
                              ('sample_index', 'sample_ids')):
            if islot in bound and idslot in bound:
                iv, idv = bound[islot][1], bound[idslot][1]
                if iv.k == 'index' and iv.c != 'param' and iv.own:
                    if idv.k == 'ids' and idv.own == iv.own and \
                            idv.ax == iv.ax:
                        self.sink('REINDEX', e, 'index-owner:%s' % islot,
                                  'ok', 'the lookup passed is that of the '
                                  'ids passed (%s)' % iv.own)
                    elif idv.k in ('ids', 'list') and idv.own != iv.own:
                        self.sink('REINDEX', e, 'index-owner:%s' % islot,
                                  'bad', 'a ready-made lookup of table '
                                  '%r is passed along ids that are not that '
                                  'table\'s ids on this axis (%r): positions '
                                  'in the lookup do not describe the new '
                                  'table' % (iv.own, idv))
        # matrix growth direction vs. concatenated ids (concat)
        if data.k == 'matrix' and isinstance(data.c, tuple) and \
                data.c[0] == 'grows' and data.c[2]:
            g = data.c[2]
            marks = {}
            for slot, (kind, sax) in self.SLOT_AX.items():
                if kind == 'ids' and slot in bound:
                    marks[sax] = bound[slot][1].c == 'concat'
            if marks.get(g) and not marks.get(inv(g)):
                self.sink('MATOP', e, 'stack-direction', 'ok',
                          '%s grows the %s axis, whose ids are the '
                          'concatenation' % (data.c[1], NAMEAX[g]))
            elif marks.get(inv(g)) and not marks.get(g):
                self.sink('MATOP', e, 'stack-direction', 'bad',
                          '%s grows the %s dimension of the matrix but it '
                          'is the %s ids that are concatenated'
                          % (data.c[1], NAMEAX[g], NAMEAX[inv(g)]))
            else:
                self.sink('MATOP', e, 'stack-direction', 'unknown',
                          'concatenated id list not identified')
        return V('table', own=None, fresh=True, node=e)

    def dict_literal_items(self, node, env):
        if isinstance(node, ast.Dict):
            for k, v in zip(node.keys, node.values):
                if const_str(k):
                    yield const_str(k), v
        elif isinstance(node, ast.Name):
            src = getattr(self, '_dict_literals', {}).get(node.id)
            if src is not None:
                yield from self.dict_literal_items(src, env)

    def kernel_owner(self, e, name, arr, parts):
        """The matrix the kernel rewrites and the ids / metadata it is given
        (and hands back for installation) belong to one table: the working
        copy, not partly the receiver."""
        if arr.k != 'matrix' or not arr.own:
            return
        for k, v in parts.items():
            if v.k == 'none' or not v.own:
                continue
            if v.own != arr.own:
                self.sink('KERNEL', e, '%s:owner:%s' % (name, k), 'bad',
                          "the kernel works on the matrix of table '%s' but "
                          "is handed the %s of table '%s': what it returns "
                          "is installed in the result, which then shares "
                          "these objects with the other table"
                          % (arr.own, k, v.own))
            else:
                self.sink('KERNEL', e, '%s:owner:%s' % (name, k), 'ok',
                          'matrix and %s come from one table' % k)

    def kernel(self, e, name, env):
        args = [self.ev(a, env) for a in e.args]
        kws = {kw.arg: self.ev(kw.value, env) for kw in e.keywords}
        if name == '_filter':
            names = ['arr', 'ids', 'metadata', 'index', 'ids_to_keep',
                     'axis', 'invert']
            b = dict(zip(names, args))
            b.update(kws)
            axn = b.get('axis')
            ax = axn.ax if axn is not None and axn.k == 'axisnum' else None
            parts = {k: b[k] for k in ('ids', 'metadata', 'index')
                     if k in b}
            un = [k for k, v in parts.items()
                  if v.ax is None and v.k != 'none']
            if ax is None or un:
                self.sink('KERNEL', e, '_filter', 'unknown',
                          'axis of %s unresolved' % (un or ['axis']))
            else:
                badp = [k for k, v in parts.items()
                        if v.k != 'none' and v.ax != ax]
                self.sink('KERNEL', e, '_filter',
                          'bad' if badp else 'ok',
                          ('%s belong to the other axis than the numeric '
                           'axis argument (%s)' % (badp, NAMEAX[ax]))
                          if badp else 'ids, metadata, index and axis agree '
                          '(%s)' % NAMEAX[ax])
            arr = b.get('arr', TOP)
            self.kernel_owner(e, '_filter', arr,
                              {k: b[k] for k in ('ids', 'metadata')
                               if k in b})
            return V('tuple', elts=(
                V('matrix', own=arr.own if arr.k == 'matrix' else None),
                V('ids', ax=ax), V('md', ax=ax)))
        if name == '_transform':
            names = ['arr', 'ids', 'metadata', 'function', 'axis']
            b = dict(zip(names, args))
            b.update(kws)
            axn = b.get('axis')
            ax = axn.ax if axn is not None and axn.k == 'axisnum' else None
            arr = b.get('arr', TOP)
            parts = {k: b[k] for k in ('ids', 'metadata') if k in b}
            if ax is None or arr.k != 'matrix' or arr.maj in (None, '?') or any(
                    v.ax is None and v.k != 'none' for v in parts.values()):
                self.sink('KERNEL', e, '_transform', 'unknown',
                          'participants unresolved')
            else:
                badp = [k for k, v in parts.items()
                        if v.k != 'none' and v.ax != ax]
                if arr.maj != ax:
                    badp.append('arr (major axis %s)' % NAMEAX[arr.maj])
                self.sink('KERNEL', e, '_transform',
                          'bad' if badp else 'ok',
                          ('%s disagree with the numeric axis (%s): the '
                           'kernel walks indptr of the major axis'
                           % (badp, NAMEAX[ax])) if badp else
                          'matrix view, ids, metadata and axis agree (%s)'
                          % NAMEAX[ax])
            self.kernel_owner(e, '_transform', arr, parts)
            return NONE
        if name == 'subsample':
            arr = args[0] if args else TOP
            p = self.fixed.get('axis')
            pax = AXNAME.get(p) if isinstance(p, str) else None
            if arr.k != 'matrix' or arr.maj in (None, '?') or pax is None:
                self.sink('KERNEL', e, 'subsample', 'unknown',
                          'matrix view or axis unresolved')
            else:
                self.sink('KERNEL', e, 'subsample',
                          'ok' if arr.maj == pax else 'bad',
                          'the per-vector kernel walks the %s-major view '
                          'while the function operates along axis=%s'
                          % (NAMEAX[arr.maj], NAMEAX[pax]))
            return NONE
        return TOP
