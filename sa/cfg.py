"""Statement-level control-flow graph for the constructs the repository uses,
with dominators and post-dominators.

Nodes are AST statements (compound statements contribute their *header*:
the test of an ``if``/``while``, the iterable of a ``for``, the items of a
``with``, a marker for ``try``), plus ENTRY, EXIT (normal return / fall off
the end) and RAISE (exceptional exit).

Exceptional flow: an explicit ``raise`` goes to the innermost enclosing
handler set (every ``except`` head and the ``finally``) or to RAISE.
Statements inside a ``try`` body additionally get a may-raise edge to each
handler / the finally block.  ``yield`` statements get a may-raise edge too
(the consumer of a ``@contextmanager`` generator throws the block's exception
in at the yield); outside any ``try`` that edge goes to RAISE.
"""
import ast


class Node:
    __slots__ = ('kind', 'stmt', 'idx', 'label')

    def __init__(self, kind, stmt=None, label=''):
        self.kind = kind      # 'entry' 'exit' 'raise' 'stmt' 'head' 'join'
        self.stmt = stmt
        self.label = label
        self.idx = -1

    def __repr__(self):
        if self.stmt is not None:
            return '<%s L%d %s>' % (self.kind, self.stmt.lineno, self.label)
        return '<%s %s>' % (self.kind, self.label)


class CFG:
    def __init__(self, func):
        self.func = func
        self.nodes = []
        self.succ = {}
        self.exc_edges = set()
        self.pred = {}
        self.entry = self._new('entry')
        self.exit = self._new('exit')
        self.raise_ = self._new('raise')
        self.node_of = {}         # stmt -> node (header node for compound)
        self._loops = []          # (continue_target, break_target)
        self._handlers = []       # list of lists of handler-entry nodes
        self._finallies = []      # list of finally entry nodes (or None)
        last = self._block(func.body, [self.entry])
        for n in last:
            self._edge(n, self.exit)
        self._dom = None
        self._pdom = None

    # ---- construction -------------------------------------------------
    def _new(self, kind, stmt=None, label=''):
        n = Node(kind, stmt, label)
        n.idx = len(self.nodes)
        self.nodes.append(n)
        self.succ[n] = []
        self.pred[n] = []
        return n

    def _edge(self, a, b):
        if b not in self.succ[a]:
            self.succ[a].append(b)
            self.pred[b].append(a)

    def _exc_targets(self):
        """Where an exception raised here goes."""
        if self._handlers and self._handlers[-1]:
            return list(self._handlers[-1])
        return [self.raise_]

    def _block(self, stmts, preds):
        cur = preds
        for st in stmts:
            cur = self._stmt(st, cur)
        return cur

    def _may_raise(self, node, stmt):
        in_try = bool(self._handlers and self._handlers[-1])
        has_yield = any(isinstance(x, (ast.Yield, ast.YieldFrom))
                        for x in ast.walk(stmt)) if not isinstance(
            stmt, (ast.FunctionDef, ast.AsyncFunctionDef, ast.ClassDef)) \
            else False
        if in_try or has_yield:
            for t in self._exc_targets():
                self._edge(node, t)
                self.exc_edges.add((node, t))

    def _stmt(self, st, preds):
        if isinstance(st, ast.If):
            head = self._new('head', st, 'if')
            self.node_of[st] = head
            for p in preds:
                self._edge(p, head)
            self._may_raise(head, st.test)
            t_out = self._block(st.body, [head])
            e_out = self._block(st.orelse, [head]) if st.orelse else [head]
            return t_out + e_out
        if isinstance(st, (ast.For, ast.AsyncFor, ast.While)):
            head = self._new('head', st, 'loop')
            self.node_of[st] = head
            for p in preds:
                self._edge(p, head)
            self._may_raise(head, st.iter if not isinstance(st, ast.While)
                            else st.test)
            after = self._new('join', st, 'loop-exit')
            self._loops.append((head, after))
            b_out = self._block(st.body, [head])
            self._loops.pop()
            for n in b_out:
                self._edge(n, head)
            # normal loop exit (condition false / iterator exhausted)
            infinite = isinstance(st, ast.While) and isinstance(
                st.test, ast.Constant) and bool(st.test.value)
            if st.orelse:
                o_out = self._block(st.orelse, [] if infinite else [head])
                for n in o_out:
                    self._edge(n, after)
            elif not infinite:
                self._edge(head, after)
            return [after]
        if isinstance(st, (ast.With, ast.AsyncWith)):
            head = self._new('head', st, 'with')
            self.node_of[st] = head
            for p in preds:
                self._edge(p, head)
            self._may_raise(head, st)
            return self._block(st.body, [head])
        if isinstance(st, ast.Try) or (hasattr(ast, 'TryStar') and
                                       isinstance(st, ast.TryStar)):
            head = self._new('head', st, 'try')
            self.node_of[st] = head
            for p in preds:
                self._edge(p, head)
            hnodes = [self._new('head', h, 'except') for h in st.handlers]
            for h, hn in zip(st.handlers, hnodes):
                self.node_of[h] = hn
            fin_entry = self._new('join', st, 'finally') if st.finalbody \
                else None
            targets = list(hnodes)
            if fin_entry is not None:
                targets.append(fin_entry)
            # body
            self._handlers.append(targets)
            b_out = self._block(st.body, [head])
            self._handlers.pop()
            # else
            if st.orelse:
                self._handlers.append([fin_entry] if fin_entry else [])
                b_out = self._block(st.orelse, b_out)
                self._handlers.pop()
            # handlers
            h_out = []
            for h, hn in zip(st.handlers, hnodes):
                self._handlers.append([fin_entry] if fin_entry else [])
                h_out += self._block(h.body, [hn])
                self._handlers.pop()
            outs = b_out + h_out
            if fin_entry is not None:
                for n in outs:
                    self._edge(n, fin_entry)
                f_out = self._block(st.finalbody, [fin_entry])
                # after a finally reached exceptionally the exception
                # propagates further
                exceptional = any(fin_entry in self.succ[n]
                                  for n in self.nodes
                                  if n not in outs and n is not fin_entry)
                if exceptional or not st.handlers:
                    for n in f_out:
                        for t in self._exc_targets():
                            self._edge(n, t)
                return f_out
            return outs
        if isinstance(st, ast.Match):
            head = self._new('head', st, 'match')
            self.node_of[st] = head
            for p in preds:
                self._edge(p, head)
            outs = [head]
            for case in st.cases:
                outs += self._block(case.body, [head])
            return outs
        # simple statements
        n = self._new('stmt', st)
        self.node_of[st] = n
        for p in preds:
            self._edge(p, n)
        if isinstance(st, ast.Return):
            self._may_raise(n, st)
            # a return inside try/finally runs the finally first
            fin = self._innermost_finally()
            self._edge(n, fin if fin is not None else self.exit)
            if fin is not None:
                self._returns_via_finally = True
            return []
        if isinstance(st, ast.Raise):
            for t in self._exc_targets():
                self._edge(n, t)
            return []
        if isinstance(st, ast.Break):
            self._edge(n, self._loops[-1][1])
            return []
        if isinstance(st, ast.Continue):
            self._edge(n, self._loops[-1][0])
            return []
        self._may_raise(n, st)
        return [n]

    def _innermost_finally(self):
        for targets in reversed(self._handlers):
            for t in targets:
                if t.kind == 'join' and t.label == 'finally':
                    return t
        return None

    # ---- dominance ----------------------------------------------------
    def _dominators(self, root, succ, pred):
        reach = set()
        stack = [root]
        while stack:
            n = stack.pop()
            if n in reach:
                continue
            reach.add(n)
            stack.extend(succ[n])
        dom = {n: set(reach) for n in reach}
        dom[root] = {root}
        changed = True
        order = [n for n in self.nodes if n in reach]
        while changed:
            changed = False
            for n in order:
                if n is root:
                    continue
                ps = [dom[p] for p in pred[n] if p in reach]
                new = set.intersection(*ps) if ps else set()
                new = new | {n}
                if new != dom[n]:
                    dom[n] = new
                    changed = True
        return dom

    def dominators(self):
        if self._dom is None:
            self._dom = self._dominators(self.entry, self.succ, self.pred)
        return self._dom

    def dominates(self, a, b):
        """Every path from ENTRY to b passes through a."""
        d = self.dominators()
        return b in d and a in d[b]

    def reachable_from(self, a, avoid=()):
        seen = set()
        stack = [a]
        while stack:
            n = stack.pop()
            if n in seen or n in avoid:
                continue
            seen.add(n)
            stack.extend(self.succ[n])
        return seen

    def path_avoiding(self, src, dst, avoid):
        """Is there a path src -> dst that passes through none of ``avoid``
        (src itself excluded from the test)?"""
        seen = set()
        stack = list(self.succ[src])
        while stack:
            n = stack.pop()
            if n in seen:
                continue
            seen.add(n)
            if n is dst:
                return True
            if n in avoid:
                # a statement that raises has not taken effect: its
                # exceptional successors are reached without it
                stack.extend(t for t in self.succ[n]
                             if (n, t) in self.exc_edges)
                continue
            stack.extend(self.succ[n])
        return False

    def node(self, stmt):
        return self.node_of.get(stmt)

    def stmt_nodes(self):
        return [n for n in self.nodes if n.stmt is not None]
