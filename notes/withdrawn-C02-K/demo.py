import sys, os; sys.path.insert(0, os.getcwd())
# C02 demo K: tables with no non-zero value, in every way the public API
# can produce them, must be written as well-formed JSON (string form and
# streamed form) and read back unchanged - also when the table that is
# written was itself just read from a BIOM 1.0 document.
import gzip
import io
import json
import tempfile
from datetime import datetime

import numpy as np
from scipy.sparse import coo_matrix, csc_matrix, csr_matrix

import biom
from biom import Table
from biom.parse import parse_biom_table

problems = []
DATE = datetime(2021, 3, 4, 5, 6, 7, 123456)
GEN = 'demo "K" \\ v1'


def write_both(tag, t):
    """string form and streamed form; None when the writer fails"""
    try:
        doc = t.to_json(GEN, creation_date=DATE)
    except Exception as e:
        problems.append('%s: to_json (string form) raised %r' % (tag, e))
        doc = None
    buf = io.StringIO()
    try:
        t.to_json(GEN, direct_io=buf, creation_date=DATE)
        streamed = buf.getvalue()
    except Exception as e:
        problems.append('%s: to_json (streamed form) raised %r' % (tag, e))
        streamed = None
    parsed = []
    for form, text in (('string', doc), ('streamed', streamed)):
        if text is None:
            continue
        try:
            parsed.append(json.loads(text))
        except ValueError as e:
            problems.append('%s: %s form is not well-formed JSON: %s'
                            % (tag, form, e))
    if len(parsed) == 2 and parsed[0] != parsed[1]:
        problems.append('%s: streamed form differs from string form' % tag)
    return doc if doc is not None else streamed


def same(tag, back, dense, obs_ids, samp_ids, obs_md, samp_md, type_):
    if list(back.ids(axis='observation')) != list(obs_ids):
        problems.append('%s: observation ids differ' % tag)
    if list(back.ids()) != list(samp_ids):
        problems.append('%s: sample ids differ' % tag)
    got = back.matrix_data.toarray()
    if got.shape != dense.shape or not (got == dense).all():
        problems.append('%s: matrix values differ: wrote %s read %s'
                        % (tag, dense.tolist(), got.tolist()))
    for ax, md in (('observation', obs_md), ('sample', samp_md)):
        bmd = back.metadata(axis=ax)
        if md is None:
            if bmd is not None:
                problems.append('%s: %s metadata appeared' % (tag, ax))
        elif bmd is None or [dict(x) for x in bmd] != md:
            problems.append('%s: %s metadata differ' % (tag, ax))
    if back.type != type_:
        problems.append('%s: type differs' % tag)
    if back.generated_by != GEN:
        problems.append('%s: generated_by differs' % tag)
    if back.create_date != DATE:
        problems.append('%s: creation date differs' % tag)


def readers(doc, tmpdir):
    yield 'from_json(dict)', lambda: Table.from_json(json.loads(doc))
    yield 'parse_table(handle)', lambda: parse_biom_table(io.StringIO(doc))
    yield 'parse_table(lines)', lambda: parse_biom_table([doc])
    p = os.path.join(tmpdir, 't.biom')
    with open(p, 'w') as fh:
        fh.write(doc)
    yield 'load_table(plain)', lambda: biom.load_table(p)
    pz = os.path.join(tmpdir, 't.biom.gz')
    with gzip.open(pz, 'wt') as fh:
        fh.write(doc)
    yield 'load_table(gzip)', lambda: biom.load_table(pz)


def check(tag, t, dense, obs_ids, samp_ids, obs_md=None, samp_md=None,
          type_=None, again=True):
    dense = np.asarray(dense, dtype=float)
    doc = write_both(tag, t)
    if doc is None:
        return
    with tempfile.TemporaryDirectory() as tmpdir:
        for how, read in readers(doc, tmpdir):
            try:
                back = read()
            except Exception as e:
                problems.append('%s/%s: reading raised %r' % (tag, how, e))
                continue
            same('%s/%s' % (tag, how), back, dense, obs_ids, samp_ids,
                 obs_md, samp_md, type_)
            if again:
                # a table that was read must be writable again, unchanged
                check('%s/%s/rewritten' % (tag, how), back, dense, obs_ids,
                      samp_ids, obs_md, samp_md, type_, again=False)


obs = ['O"1', 'O\\2']
samp = ['Sé1', 'S\t2', 'S3']
omd = [{'tax': ['k__a', 'p__"b"']}, {'tax': None}]
smd = [{'n': 1}, {'n': [1, [2.5, None]]}, {'n': np.int64(3)}]
smd_plain = [{'n': 1}, {'n': [1, [2.5, None]]}, {'n': 3}]
Z = np.zeros((2, 3))

# all-zero tables by every public construction route
check('empty coordinate list', Table([], obs, samp, omd, smd, type='OTU table'),
      Z, obs, samp, omd, smd_plain, 'OTU table')
check('dense zeros', Table(Z, obs, samp), Z, obs, samp)
check('coo zeros', Table(coo_matrix((2, 3)), obs, samp), Z, obs, samp)
check('csr zeros', Table(csr_matrix((2, 3)), obs, samp), Z, obs, samp)
check('csc zeros', Table(csc_matrix((2, 3)), obs, samp), Z, obs, samp)
check('explicit zeros',
      Table(csr_matrix((np.zeros(2), ([0, 1], [1, 2])), shape=(2, 3)), obs,
            samp), Z, obs, samp)
check('1x1 zero', Table([], ['o'], ['s']), np.zeros((1, 1)), ['o'], ['s'])
t = Table(np.array([[0, 3.5, 0], [0, 0, 0]]), obs, samp)
t.filter(lambda v, i, m: i != samp[1])          # drops the only value
check('emptied by filter', t, np.zeros((2, 2)), obs, [samp[0], samp[2]])

# tables with values, for comparison
D = np.array([[0, 1e-9, -2.5], [123456.789012345, 0, 0]])
check('with values', Table(D, obs, samp, omd, smd), D, obs, samp, omd,
      smd_plain)
check('reordered', Table(D, obs, samp).sort_order([samp[2], samp[0], samp[1]]),
      D[:, [2, 0, 1]], obs, [samp[2], samp[0], samp[1]])

if problems:
    print('FAIL')
    for p in problems[:12]:
        print(' -', p)
    if len(problems) > 12:
        print(' - ... and %d more' % (len(problems) - 12))
    sys.exit(1)
print('PASS')
sys.exit(0)
