import sys, os; sys.path.insert(0, os.getcwd())  # noqa: E401,E702
"""C13 demo M: `biom normalize-table` must give what Table.norm / Table.pa
give (every vector with a positive total sums to 1, proportions kept, zero
cells stay zero; 1 exactly where the table was non-zero), for every table of
the domain - here a count table in which one sample has no counts at all.

Run from the worktree root:  /venv/bin/python out7/demo_M.py
"""
import subprocess
import tempfile

import numpy as np

import biom
from biom import Table, load_table
from biom.util import biom_open

problems = []


def fail(msg):
    problems.append(msg)


def make_table():
    # sample 'blank' has no counts (e.g. a negative control / a sample left
    # empty by an earlier filter); every observation has a positive total
    data = np.array([[2., 0., 5., 0.],
                     [6., 1., 0., 0.],
                     [0., 3., 5., 0.]])
    return Table(data, ['o1', 'o2', 'o3'], ['s1', 's2', 's3', 'blank'],
                 [{'taxonomy': ['k__a', 'p__b']},
                  {'taxonomy': ['k__a', 'p__c']},
                  {'taxonomy': ['k__d', 'p__e']}],
                 [{'site': 'gut'}, {'site': 'skin'}, {'site': 'gut'},
                  {'site': 'control'}])


def dense(t, obs, samp):
    out = np.zeros((len(obs), len(samp)))
    for i, o in enumerate(obs):
        for j, s in enumerate(samp):
            out[i, j] = t.get_value_by_ids(o, s)
    return out


def run_cli(workdir, name, args):
    """write the table, run `biom normalize-table`, return the result"""
    in_fp = os.path.join(workdir, name + '_in.biom')
    out_fp = os.path.join(workdir, name + '_out.biom')
    with biom_open(in_fp, 'w') as fh:
        make_table().to_hdf5(fh, 'demo_M')
    # the `biom` command line entry point, on the worktree's package
    code = ("import sys, os; sys.path.insert(0, os.getcwd()); "
            "from biom.cli import cli; cli()")
    proc = subprocess.run([sys.executable, '-c', code, 'normalize-table',
                           '-i', in_fp, '-o', out_fp] + args,
                          cwd=os.getcwd(), stdout=subprocess.PIPE,
                          stderr=subprocess.PIPE, universal_newlines=True)
    if proc.returncode != 0 or not os.path.exists(out_fp):
        lines = (proc.stderr or proc.stdout or '').strip().splitlines()
        fail("biom normalize-table %s: command failed (exit code %s): %s"
             % (' '.join(args), proc.returncode,
                lines[-1] if lines else 'no output'))
        return None
    return load_table(out_fp)


def check_relative(workdir, axis):
    ref = make_table()
    obs = list(ref.ids('observation'))
    samp = list(ref.ids())
    orig = dense(ref, obs, samp)
    label = "-r -a %s" % axis

    got_t = run_cli(workdir, 'rel_' + axis, ['-r', '-a', axis])
    if got_t is None:
        return
    if list(got_t.ids('observation')) != obs or list(got_t.ids()) != samp:
        fail("%s: ids changed" % label)
        return
    got = dense(got_t, obs, samp)

    # the property itself
    num_axis = 0 if axis == 'sample' else 1
    totals = orig.sum(axis=num_axis)
    sums = got.sum(axis=num_axis)
    names = samp if axis == 'sample' else obs
    for name, tot, s in zip(names, totals, sums):
        if tot > 0 and not abs(s - 1.) < 1e-9:
            fail("%s: vector %r (total %g) sums to %r, not 1"
                 % (label, name, tot, s))
        if tot == 0 and s != 0:
            fail("%s: all-zero vector %r became non-zero" % (label, name))
    if ((orig == 0) & (got != 0)).any():
        fail("%s: zero cells became non-zero" % label)
    with np.errstate(all='ignore'):
        exp = orig / (totals[None, :] if axis == 'sample'
                      else totals[:, None])
    exp = np.nan_to_num(exp)
    if not np.allclose(got, exp, rtol=1e-9, atol=0):
        fail("%s: cells are not value/total:\n%s\nexpected\n%s"
             % (label, got, exp))

    # ... and the same answer as the API
    api = make_table().norm(axis=axis, inplace=False)
    if not np.allclose(got, dense(api, obs, samp), rtol=1e-12, atol=0):
        fail("%s: the command line result differs from Table.norm" % label)


def check_pa(workdir, axis):
    ref = make_table()
    obs = list(ref.ids('observation'))
    samp = list(ref.ids())
    orig = dense(ref, obs, samp)
    got_t = run_cli(workdir, 'pa_' + axis, ['-p', '-a', axis])
    if got_t is None:
        return
    got = dense(got_t, obs, samp)
    if not np.array_equal(got, (orig != 0).astype(float)):
        fail("-p -a %s: not 1 exactly where the table was non-zero:\n%s"
             % (axis, got))


def main():
    print("biom imported from", os.path.dirname(biom.__file__))
    workdir = tempfile.mkdtemp(prefix='c13_demo_M_')
    for axis in ('sample', 'observation'):
        check_relative(workdir, axis)
        check_pa(workdir, axis)

    if problems:
        print("FAIL")
        for p in problems:
            print(" -", p)
        return 1
    print("PASS")
    return 0


if __name__ == '__main__':
    sys.exit(main())
