import numpy as np, warnings
from biom import Table
from biom.exception import TableException
warnings.simplefilter('ignore')
d = np.array([[1,2],[3,4]])
for label, kw in [('md all-falsy non-mappings [0,0]', dict(sample_metadata=[0,0])),
                  ('md too long but falsy [{},{},{}]', dict(sample_metadata=[{},{},{}])),
                  ('md too long', dict(sample_metadata=[{'a':1},{'a':2},{'a':3}])),
                  ('md non-mapping', dict(sample_metadata=[{'a':1},5])),
                  ('md str', dict(sample_metadata=['x','y'])),
                  ('dup ids', dict()),]:
    try:
        if label=='dup ids': t = Table(d, ['o','o'], ['s1','s2'])
        else: t = Table(d, ['o1','o2'], ['s1','s2'], **kw)
        print(label, '-> ACCEPTED md=', t.metadata())
    except Exception as e:
        print(label, '->', type(e).__name__, e)
