import numpy as np, warnings
from scipy.sparse import csr_matrix
from biom import Table
warnings.simplefilter('ignore')
m = csr_matrix((np.array([1.,0.,3.]), np.array([0,1,1]), np.array([0,2,3])), shape=(2,2))
t = Table(m, ['o1','o2'], ['s1','s2'])
print('dense', t.matrix_data.toarray().tolist(), 'stored', t.matrix_data.nnz)
print('nonzero():', list(t.nonzero()))
print('min obs:', t.min('observation'), ' min sample:', t.min('sample'), ' min whole:', t.min('whole'))
seen=[]
t.transform(lambda v,i,md: (seen.append((str(i), v.copy())), v)[1], axis='observation', inplace=False)
print('transform saw:', seen)
print('nonzero_counts:', t.nonzero_counts('observation'), 'density', t.get_table_density())
# history route: subsample leaves explicit zeros?
t2 = Table(np.array([[5,1],[1,5],[3,3]]), ['o1','o2','o3'], ['s1','s2'])
r = t2.subsample(2, seed=3)
print('after subsample: dense', r.matrix_data.toarray().tolist(), 'stored', r.matrix_data.nnz, 'true nz', int((r.matrix_data.toarray()!=0).sum()))
print('  nonzero():', list(r.nonzero())); 
try: print('  min sample', r.min('sample'))
except Exception as e: print('  min', type(e).__name__, e)
# pa after explicit zeros; collapse; to_json; sum ok
print('pa:', t.pa(inplace=False).matrix_data.toarray().tolist())
