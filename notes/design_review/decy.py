# feasibility probe: de-cythonise the three kernels into ast-parseable python
import re, ast, sys
def split0(s):
    out=[];d=0;cur=''
    for ch in s:
        if ch in '([{': d+=1
        if ch in ')]}': d-=1
        if ch==',' and d==0: out.append(cur);cur=''
        else: cur+=ch
    out.append(cur); return out
def strip_type(decl):
    decl=re.sub(r"ndarray\[[^\]]*\]","ndarray",decl.strip())
    if '=' in decl:
        lhs,rhs=decl.split('=',1)
    else: lhs,rhs=decl,None
    name=re.findall(r'[A-Za-z_]\w*',re.sub(r'\[.*?\]','',lhs))[-1]
    return name,(rhs.strip() if rhs is not None else None)
def convert(src):
    # join backslash continuations
    src=re.sub(r'\\\n\s*',' ',src)
    lines=src.split('\n'); out=[]; i=0
    while i<len(lines):
        ln=lines[i]; st=ln.strip(); ind=ln[:len(ln)-len(ln.lstrip())]
        if st.startswith('cimport') or re.match(r'from .* cimport',st): out.append(ind+'pass  # '+st); i+=1; continue
        m=re.match(r'cdef\s+(.*?)(\w+)\s*\((.*)$',st)
        if m and not st.startswith('cdef:'):
            # function header, maybe spanning lines until '):'
            hdr=st
            while not hdr.rstrip().endswith(':'):
                i+=1; hdr+=' '+lines[i].strip()
            m=re.match(r'cdef\s+(.*?)(\w+)\s*\((.*)\)\s*:$',hdr)
            params=[strip_type(p) for p in split0(m.group(3)) if p.strip()]
            out.append(ind+'def %s(%s):'%(m.group(2),', '.join(n if d is None else n+'='+d for n,d in params))); i+=1; continue
        if st=='cdef:':
            i+=1
            bind=None
            while i<len(lines) and (lines[i].strip()=='' or len(lines[i])-len(lines[i].lstrip())>len(ind)):
                s2=lines[i].strip()
                if s2:
                    s2=re.sub(r'^cdef\s+','',s2)
                    decls=split0(s2)
                    # first declarator carries the type
                    for k,dcl in enumerate(decls):
                        n,rhs=strip_type(dcl)
                        out.append(ind+('%s = %s'%(n,rhs) if rhs else 'pass  # decl '+n))
                i+=1
            continue
        m=re.match(r'cdef\s+(.+)$',st)
        if m:
            for dcl in split0(m.group(1)):
                n,rhs=strip_type(dcl)
                out.append(ind+('%s = %s'%(n,rhs) if rhs else 'pass  # decl '+n))
            i+=1; continue
        out.append(ln); i+=1
    return '\n'.join(out)
for f in ['_filter','_transform','_subsample']:
    py=convert(open('/repo/biom/%s.pyx'%f).read())
    try:
        t=ast.parse(py); print(f,'OK funcs:',[n.name for n in ast.walk(t) if isinstance(n,ast.FunctionDef)])
    except SyntaxError as e:
        print(f,'FAIL',e); print('\n'.join('%3d %s'%(k+1,l) for k,l in enumerate(py.split('\n')[max(0,e.lineno-4):e.lineno+2])))
