# feasibility probe: third-party attribute chains that do not resolve in the installed environment
import ast, importlib, sys, glob
files = [f for f in glob.glob('/repo/biom/**/*.py', recursive=True) if '/tests/' not in f and '/assets/' not in f]
bad=[]; n=0
for f in files:
    t=ast.parse(open(f).read())
    alias={}
    for node in ast.walk(t):
        if isinstance(node, ast.Import):
            for a in node.names:
                alias[a.asname or a.name.split('.')[0]] = a.name if a.asname else a.name.split('.')[0]
        elif isinstance(node, ast.ImportFrom) and node.module and node.level==0:
            for a in node.names:
                alias[a.asname or a.name] = (node.module, a.name)
    for node in ast.walk(t):
        if isinstance(node, ast.Attribute):
            chain=[]; cur=node
            while isinstance(cur, ast.Attribute): chain.append(cur.attr); cur=cur.value
            if isinstance(cur, ast.Name) and cur.id in alias and isinstance(alias[cur.id], str):
                root=alias[cur.id]
                if root.split('.')[0] in ('numpy','scipy','h5py','pandas','click'):
                    n+=1
                    try:
                        obj=importlib.import_module(root)
                        for a in reversed(chain):
                            try: obj=getattr(obj,a)
                            except AttributeError:
                                try: obj=importlib.import_module(obj.__name__+'.'+a)
                                except Exception: raise AttributeError(a)
                    except AttributeError as e:
                        bad.append((f,node.lineno,root+'.'+'.'.join(reversed(chain))))
    for name,(val) in alias.items():
        if isinstance(val, tuple) and val[0].split('.')[0] in ('numpy','scipy','h5py','pandas','click'):
            n+=1
            try:
                m=importlib.import_module(val[0]); getattr(m,val[1])
            except Exception as e:
                bad.append((f,0,'from %s import %s'%val))
print('chains checked',n); print(sorted(set(bad)))
