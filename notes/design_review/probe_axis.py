import ast, sys
src=open('/repo/biom/table.py').read(); tree=ast.parse(src)
AXAPI={'ids','metadata','_index','iter','iter_data','sum','_get_sparse_data','length','data','index','exists','group_metadata','filter','sort_order','sort','transform','norm','rankdata','nonzero_counts','min','max','reduce','subsample','partition','collapse','remove_empty','update_ids','add_metadata','del_metadata','metadata_to_dataframe','concat','align_to','iter_pairwise','_axis_to_num','_invert_axis'}
cls=[n for n in tree.body if isinstance(n,ast.ClassDef) and n.name=='Table'][0]
sig={}
for f in cls.body:
    if isinstance(f,ast.FunctionDef):
        args=[a.arg for a in f.args.args]
        if 'axis' in args:
            i=args.index('axis'); nd=len(f.args.defaults); off=len(args)-nd
            d=f.args.defaults[i-off] if i>=off else None
            sig[f.name]=(i-1, ast.literal_eval(d) if d is not None else '<required>')
print('axis-taking Table methods:',len(sig))
def tests_axis(test, names):
    return any(isinstance(n,ast.Name) and n.id in names for n in ast.walk(test))
for f in cls.body:
    if not isinstance(f,ast.FunctionDef): continue
    params=[a.arg for a in f.args.args]
    if 'axis' not in params: continue
    axis_names={'axis','ax','invaxis','inv_axis','aln_axis'}
    out=[]
    def visit(node, guarded):
        if isinstance(node,(ast.If,ast.IfExp)):
            g = guarded or tests_axis(node.test, axis_names)
            for ch in ast.iter_child_nodes(node): visit(ch, g if ch is not node.test else guarded)
            return
        if isinstance(node,ast.Call) and isinstance(node.func,ast.Attribute) and node.func.attr in sig:
            pos,default=sig[node.func.attr]
            kw=[k for k in node.keywords if k.arg=='axis']
            a = kw[0].value if kw else (node.args[pos] if len(node.args)>pos else None)
            kind = 'DEFAULT(%s)'%default if a is None else ('CONST(%s)'%a.value if isinstance(a,ast.Constant) else 'VAR')
            if kind!='VAR':
                out.append((node.lineno, ast.unparse(node)[:70], kind, 'guarded' if guarded else 'UNGUARDED'))
        for ch in ast.iter_child_nodes(node): visit(ch, guarded)
    for st in f.body: visit(st, False)
    ung=[o for o in out if o[3]=='UNGUARDED']
    if out: print(f'\n{f.name}: {len(out)} const/default-axis calls, {len(ung)} unguarded')
    for o in ung: print('   ',o)
