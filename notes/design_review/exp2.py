import json, io, os, numpy as np, warnings, h5py, tempfile, traceback
from biom import Table, load_table
import biom
from biom.parse import get_axis_indices, direct_slice_data
from biom.cli.table_subsetter import _subset_table
from biom.cli.table_validator import _validate_table
warnings.simplefilter('ignore')
def sec(s): print('\n== '+s)
tmp = tempfile.mkdtemp(dir='/tmp/scratch')
t = Table(np.array([[0,1,2],[3,0,5],[0,0,7]]), ['o1','o2','o3'], ['s1','s2','s3'],
          observation_metadata=[{'taxonomy':['a','b']},{'taxonomy':['a','c']},{'taxonomy':['d','e']}],
          sample_metadata=[{'x':'1'},{'x':'2'},{'x':'3'}], type='OTU table')
p = os.path.join(tmp,'t.biom')
with h5py.File(p,'w') as f: t.to_hdf5(f,'gen')

sec('D9 from_hdf5 subset (np.in1d)')
try:
    with h5py.File(p) as f: print(Table.from_hdf5(f, ids=['s1','s3']))
except Exception as e: print(type(e).__name__, e)
print('np has in1d:', hasattr(np,'in1d'), np.__version__)

sec('D11 from_hdf5 subset_with_metadata=False')
for ids in (['s1','s3'], [b's1', b's3'], ['s1','nope']):
    try:
        with h5py.File(p) as f: r = Table.from_hdf5(f, ids=ids, subset_with_metadata=False); print(ids, '->', list(r.ids()), r.shape)
    except Exception as e: print(ids, type(e).__name__, e)

sec('D10 JSON slicer whitespace')
js = t.to_json('gen')
doc = json.loads(js)
for name, txt in [('compact-as-written', js), ('json.dumps default', json.dumps(doc)), ('indent=2', json.dumps(doc, indent=2)), ('separators compact', json.dumps(doc, separators=(',',':')))]:
    for axis, ids in (('sample',['s1','s3']), ('observation',['o1','o2'])):
        try:
            gen, fmt = _subset_table(None, txt, axis, ids)
            out = json.loads(''.join(gen))
            got = Table.from_json(out)
            exp = t.filter(ids, axis=axis, inplace=False)
            same = (got.ids().tolist()==exp.ids().tolist() and got.ids('observation').tolist()==exp.ids('observation').tolist() and np.array_equal(got.matrix_data.toarray(), exp.matrix_data.toarray()))
            print(f'{name:22s} {axis:12s} same={same} data={out["data"]}')
        except Exception as e:
            print(f'{name:22s} {axis:12s} EXC {type(e).__name__}: {e}')

sec('D12 validator')
# (a) delete observation/metadata group
p2 = os.path.join(tmp,'t2.biom')
with h5py.File(p2,'w') as f: t.to_hdf5(f,'gen')
with h5py.File(p2,'a') as f: del f['observation/metadata']
print('hdf5 missing observation/metadata ->', _validate_table(p2))
# (b) duplicate IDs JSON
d = json.loads(js); d['rows'][1]['id']='o1'
p3 = os.path.join(tmp,'dup.json'); open(p3,'w').write(json.dumps(d))
print('json dup row id ->', _validate_table(p3))
try: load_table(p3); print('loaded!')
except Exception as e: print('load:', type(e).__name__, e)
# (c) HDF5 dup / empty ids
p4 = os.path.join(tmp,'t4.biom')
with h5py.File(p4,'w') as f: t.to_hdf5(f,'gen')
with h5py.File(p4,'a') as f:
    ids = f['sample/ids'][:]; ids[1]=ids[0]; f['sample/ids'][...] = ids
print('hdf5 dup sample ids ->', _validate_table(p4))
with h5py.File(p4,'a') as f:
    ids = f['sample/ids'][:]; ids[1]=b''; f['sample/ids'][...] = ids
print('hdf5 empty sample id ->', _validate_table(p4))
print('fresh file valid ->', _validate_table(p))
pj = os.path.join(tmp,'ok.json'); open(pj,'w').write(js); print('fresh json valid ->', _validate_table(pj))

sec('D13 errstate / seterr')
from biom.err import errstate, seterr, geterr
before = geterr()
try:
    with errstate(empty='raise'):
        raise RuntimeError('boom')
except RuntimeError: pass
print('restored after exception:', geterr()==before, geterr()['empty'])
seterr(**before)
try: seterr(empty='warn', bogus='raise')
except KeyError as e: print('KeyError', e)
print('profile unchanged after refused seterr:', geterr()==before, geterr()['empty'])
seterr(**before)
