import json, io, os, numpy as np, warnings, h5py, tempfile
from scipy.sparse import csr_matrix, csc_matrix
from biom import Table, load_table, parse_table
import biom
warnings.simplefilter('ignore')
def sec(s): print('\n== '+s)
tmp = tempfile.mkdtemp(dir='/tmp/scratch')
def rt(t, **kw):
    p = os.path.join(tmp,'x.biom')
    with h5py.File(p,'w') as f: t.to_hdf5(f,'gen', **kw)
    return load_table(p), p

sec('C01 non-ascii ids / slash md / group md / id None')
t = Table(np.array([[0,1.5],[-3e300,1e-300]]), ['ö/1','o 2'], ['sé','s"2'],
          observation_metadata=[{'a/b':'x','n':1},{'a/b':'y','n':2}],
          sample_metadata=[{'taxonomy':['k','p']},{'taxonomy':['k']}],
          observation_group_metadata={'tree':('newick','(a,b);')}, type=None)
try:
    r, p = rt(t)
    print('ids', r.ids('observation'), r.ids()); print('eq data', np.array_equal(r.matrix_data.toarray(), t.matrix_data.toarray()))
    print('md', [dict(m) for m in r.metadata(axis='observation')], [dict(m) for m in r.metadata()])
    print('id', repr(r.table_id), 'type', repr(r.type), 'grp', r.group_metadata('observation'), r.group_metadata())
    print('gen', r.generated_by, r.create_date)
except Exception as e:
    import traceback; traceback.print_exc()

sec('C01/C04 unsorted indices + explicit zeros written')
m = csr_matrix((np.array([1.,0.,3.,4.]), np.array([2,0,1,0]), np.array([0,2,4])), shape=(2,3))
t2 = Table(m, ['o1','o2'], ['s1','s2','s3'])
r2, p = rt(t2)
with h5py.File(p) as f:
    print('nnz attr', f.attrs['nnz'], 'obs data', f['observation/matrix/data'][:], f['observation/matrix/indices'][:], f['observation/matrix/indptr'][:])
    print('samp data', f['sample/matrix/data'][:], f['sample/matrix/indices'][:], f['sample/matrix/indptr'][:])
    print('shape attr', f.attrs['shape'], f.attrs['shape'].dtype, 'fmtver', f.attrs['format-version'], f.attrs['format-version'].dtype, 'nnz dtype', type(f.attrs['nnz']))
    print('indices dtype', f['observation/matrix/indices'].dtype, f['observation/matrix/indptr'].dtype, f['observation/matrix/data'].dtype, f['observation/ids'].dtype)

sec('C03 TSV roundtrip')
t3 = Table(np.array([[1e-7, 1e22],[0.1+0.2, -5]]), ['o1','o2'], ['s1','s2'])
txt = t3.to_tsv(); print(repr(txt))
r3 = Table.from_tsv(txt.split('\n'), None, None, lambda x:x)
print('equal values', np.array_equal(r3.matrix_data.toarray(), t3.matrix_data.toarray()))
# single sample
t4 = Table(np.array([[1.],[2.]]), ['o1','o2'], ['s1'])
r4 = Table.from_tsv(t4.to_tsv().split('\n'), None, None, lambda x:x); print('single sample ids', r4.ids(), r4.shape)

sec('C06 transpose keeps type? sort_order generator order')
t5 = Table(np.array([[1,2],[3,4]]), ['o1','o2'], ['s1','s2'], type='OTU table')
print('transpose type', t5.transpose().type, 'T.T == t', t5.transpose().transpose()==t5)

sec('C10 biom.concat single table')
try: print(biom.concat(t5))
except Exception as e: print(type(e).__name__, e)
try: print(biom.concat([t5]).shape)
except Exception as e: print(type(e).__name__, e)

sec('C13 transform on CSC table for observation axis etc')
t6 = Table(np.array([[1,2,3],[4,5,6]]), ['o1','o2'], ['s1','s2','s3'])
t6._get_col(0)  # now csc
seen=[]
t6.transform(lambda v,i,m: (seen.append((i,v.copy())), v)[1], axis='observation', inplace=False)
print(seen)

sec('C11 collapse norm in place on sum? partition shares')
t7 = Table(np.array([[1,2,3],[4,5,6]]), ['o1','o2'], ['s1','s2','s3'], sample_metadata=[{'g':'a'},{'g':'a'},{'g':'b'}])
c = t7.collapse(lambda i,m: m['g'], norm=False)
print(c, c.metadata())
print('orig unchanged', t7.matrix_data.toarray().tolist())

sec('C12 with_replacement zero-total vector / retained')
t8 = Table(np.array([[0,2,3],[0,0,2]]), ['o1','o2'], ['s1','s2','s3'])
try:
    r = t8.subsample(4, with_replacement=True, seed=0); print(r, r.sum('sample'))
except Exception as e: print(type(e).__name__, e)
