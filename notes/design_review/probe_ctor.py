import ast,glob
for fn in ['/repo/biom/table.py','/repo/biom/parse.py','/repo/biom/__init__.py']+glob.glob('/repo/biom/cli/*.py'):
    t=ast.parse(open(fn).read())
    stack=[]
    class V(ast.NodeVisitor):
        def visit_FunctionDef(self,n):
            stack.append(n.name); self.generic_visit(n); stack.pop()
        def visit_Call(self,n):
            f=ast.unparse(n.func)
            if f in ('Table','self.__class__','cls','biom.Table'):
                args=[ast.unparse(a)[:38] for a in n.args]+[f'{k.arg}={ast.unparse(k.value)[:30]}' for k in n.keywords]
                print(f"{fn.split('/')[-1]}:{n.lineno} {'.'.join(stack)}: {f}(" + ' | '.join(args)+')')
            self.generic_visit(n)
    V().visit(t)
