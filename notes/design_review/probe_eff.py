import ast
src=open('/repo/biom/table.py').read(); tree=ast.parse(src)
cls=[n for n in tree.body if isinstance(n,ast.ClassDef) and n.name=='Table'][0]
MUT={'update','pop','clear','append','extend','sort','put','fill','eliminate_zeros','sort_indices','sum_duplicates','setdefault','insert','remove','shuffle'}
for f in cls.body:
    if not isinstance(f,ast.FunctionDef): continue
    eff=[]
    for n in ast.walk(f):
        tgts=[]
        if isinstance(n,ast.Assign): tgts=n.targets
        elif isinstance(n,(ast.AugAssign,ast.AnnAssign)): tgts=[n.target]
        elif isinstance(n,ast.Delete): tgts=n.targets
        for t in tgts:
            for s in ast.walk(t):
                if isinstance(s,ast.Attribute) and isinstance(s.value,ast.Name) and isinstance(s.ctx,(ast.Store,ast.Del)):
                    rhs = ast.unparse(n.value)[:50] if hasattr(n,'value') and n.value is not None else ''
                    eff.append(f'{s.value.id}.{s.attr} = {rhs}')
                if isinstance(s,ast.Subscript) and isinstance(s.ctx,(ast.Store,ast.Del)):
                    eff.append('SUBSCRIPT '+ast.unparse(s)[:40])
        if isinstance(n,ast.Call) and isinstance(n.func,ast.Attribute) and n.func.attr in MUT:
            eff.append('CALL '+ast.unparse(n.func)[:50])
        if isinstance(n,ast.Call) and isinstance(n.func,ast.Name) and n.func.id in ('_filter','_transform','subsample'):
            eff.append('KERNEL '+ast.unparse(n)[:60].replace('\n',' '))
    if eff and f.name!='__init__':
        print(f'{f.name}:'); [print('    ',e) for e in eff]
print('\n--- emptiness predicates')
import re
for fn in ['/repo/biom/table.py','/repo/biom/parse.py','/repo/biom/util.py']:
    for i,l in enumerate(open(fn).read().split('\n'),1):
        if re.search(r'sum\([^)]*\)\s*>\s*0|np\.any\(|!= 0|nonzero\(\)', l) and '>>>' not in l:
            print(fn.split('/')[-1], i, l.strip()[:90])
