import json, io, numpy as np, warnings
from scipy.sparse import csr_matrix
from biom import Table
import biom
warnings.simplefilter('ignore')
def sec(s): print('\n== '+s)

sec('D1 to_json %f precision')
t = Table(np.array([[1e-7, 0.1234567891],[2.5,0]]), ['o1','o2'], ['s1','s2'])
d = json.loads(t.to_json('x'))
print(d['data'])

sec('D2 to_json escaping')
t2 = Table(np.array([[1.,2.],[3.,4.]]), ['o1','o2'], ['s1','s2'], table_id='a"b', type='OTU table')
for name, tt, gb in [('id', t2, 'gen'), ('generated_by', t, 'g"en\\')]:
    try:
        json.loads(tt.to_json(gb)); print(name, 'ok')
    except Exception as e: print(name, 'MALFORMED', e)

sec('D3 direct_io vs str')
s = t2.to_json('gen'.replace('"',''), creation_date=__import__('datetime').datetime(2020,1,1)) if False else None
tt = Table(np.array([[1.,2.],[3.,4.]]), ['o1','o2'], ['s1','s2'])
import datetime
cd = datetime.datetime(2020,1,1)
a = tt.to_json('gen', creation_date=cd)
b = io.StringIO(); tt.to_json('gen', direct_io=b, creation_date=cd)
print('identical text:', a == b.getvalue(), ' same json value:', json.loads(a)==json.loads(b.getvalue()))

sec('D4 equality with explicit zeros')
m = csr_matrix((np.array([1.,0.,3.]), np.array([0,1,1]), np.array([0,2,3])), shape=(2,2))
ta = Table(m, ['o1','o2'], ['s1','s2'])
tb = Table(np.array([[1.,0.],[0.,3.]]), ['o1','o2'], ['s1','s2'])
print('raw nnz', ta.matrix_data.nnz, tb.matrix_data.nnz, 'equal?', ta == tb)
print('after ta.nnz access', ta.nnz, 'equal?', ta == tb)

sec('D5 subsample axis=observation')
t5 = Table(np.array([[5,5,5],[1,0,0],[10,0,0]]), ['o1','o2','o3'], ['s1','s2','s3'])
r = t5.subsample(3, axis='observation', seed=1)
print(r); print('obs sums', r.sum('observation'), 'sample sums', r.sum('sample'))

sec('D6 filter predicate after sort_order (unsorted indices)')
t6 = Table(np.array([[1,2,3],[4,5,6]]), ['o1','o2'], ['s1','s2','s3'])
t6s = t6.sort_order(['s3','s1','s2'])
print('fmt', t6s.matrix_data.getformat(), 'sorted idx', t6s.matrix_data.has_sorted_indices, t6s.matrix_data.indices)
seen=[]
t6s.filter(lambda v,i,md: seen.append((i, v.copy())) or True, axis='observation', inplace=False)
print('predicate saw', seen); print('truth', [ (i, t6s.data(i,'observation')) for i in t6s.ids('observation')])

sec('D7 remove_empty negative')
t7 = Table(np.array([[1,-1],[0,0],[-2,0]]), ['o1','o2','o3'], ['s1','s2'])
print(t7.remove_empty(axis='observation', inplace=False).ids('observation'))

sec('D8 fast merge drops other metadata')
x = Table(np.array([[1.]]), ['o1'], ['s1'])
y = Table(np.array([[1.]]), ['o1'], ['s2'], sample_metadata=[{'a':1}], observation_metadata=[{'tax':'k'}])
m = x.merge(y); print('s md', m.metadata(), 'o md', m.metadata(axis='observation'))
m2 = y.merge(x); print('reverse s md', m2.metadata(), 'o md', m2.metadata(axis='observation'))
