import os, numpy as np, warnings, h5py, tempfile, traceback
from biom import Table
warnings.simplefilter('ignore')
tmp = tempfile.mkdtemp(dir='/tmp/scratch')
def try_rt(label, t):
    p = os.path.join(tmp,'x.biom')
    try:
        with h5py.File(p,'w') as f: t.to_hdf5(f,'gen')
    except Exception as e:
        print(label, 'WRITE', type(e).__name__, e); return
    try:
        with h5py.File(p) as f: r = Table.from_hdf5(f)
        ok = (list(r.ids())==list(t.ids()) and list(r.ids('observation'))==list(t.ids('observation')) and np.array_equal(r.matrix_data.toarray(), t.matrix_data.toarray()))
        print(label, 'ok' if ok else 'MISMATCH', list(r.ids('observation')), list(r.ids()), r.metadata() and [dict(m) for m in r.metadata()], r.metadata(axis='observation') and [dict(m) for m in r.metadata(axis='observation')], repr(r.table_id), repr(r.type), r.group_metadata('observation'))
    except Exception as e:
        print(label, 'READ', type(e).__name__, e); traceback.print_exc(limit=3)
d = np.array([[0,1.5],[-3e300,1e-300]])
try_rt('plain', Table(d, ['o1','o2'], ['s1','s2']))
try_rt('nonascii ids', Table(d, ['ö1','o2'], ['sé','s2']))
try_rt('slash ids', Table(d, ['o/1','o 2'], ['s"1','s2']))
try_rt('slash md key', Table(d, ['o1','o2'], ['s1','s2'], observation_metadata=[{'a/b':'x','n':1},{'a/b':'y','n':2}]))
try_rt('taxonomy jagged', Table(d, ['o1','o2'], ['s1','s2'], sample_metadata=[{'taxonomy':['k','p']},{'taxonomy':['k']}]))
try_rt('group md', Table(d, ['o1','o2'], ['s1','s2'], observation_group_metadata={'tree':('newick','(a,b);')}))
try_rt('nonascii md', Table(d, ['o1','o2'], ['s1','s2'], sample_metadata=[{'x':'é'},{'x':'b'}]))
try_rt('id/type', Table(d, ['o1','o2'], ['s1','s2'], table_id='tid', type='OTU table'))
try_rt('bool md', Table(d, ['o1','o2'], ['s1','s2'], sample_metadata=[{'x':True},{'x':False}]))
try_rt('float md', Table(d, ['o1','o2'], ['s1','s2'], sample_metadata=[{'x':1.5},{'x':2.0}]))
try_rt('long/short ids', Table(d, ['o'*40,'o2'], ['s1','s'*33]))
