#!/venv/bin/python
"""Confirm a candidate seeded change and run the checks against it.

usage: tools/seed_eval.py <worktree> <patch> <demo> [--props C05,C06]

1. in the scratch worktree: apply patch, run the repo test-suite, run the
   demo (must exit non-zero), revert, run the demo again (must exit 0);
2. apply the patch to /repo, run every quick check, undo (git checkout).
Prints a JSON summary.
"""
import json
import os
import re
import subprocess
import sys


def sh(cmd, cwd=None, timeout=1800):
    p = subprocess.run(cmd, shell=True, cwd=cwd, capture_output=True,
                       text=True, timeout=timeout)
    return p.returncode, p.stdout + p.stderr


def main():
    wt, patch, demo = sys.argv[1:4]
    res = {'patch': patch}
    if '--repo-only' in sys.argv:
        return repo_part(res, patch)
    rc, out = sh('git status --porcelain --untracked-files=no', wt)
    if out.strip():
        sh('git checkout -- .', wt)
    rc, out = sh('git apply %s' % patch, wt)
    res['apply_worktree'] = rc
    if rc:
        print(json.dumps(res, indent=1), out)
        return 1
    rc, out = sh('/venv/bin/python -m pytest -q -p no:cacheprovider '
                 '--timeout=900 2>&1 | tail -3', wt)
    m = re.search(r'(\d+) passed', out)
    f = re.search(r'(\d+) failed', out)
    res['tests_passed'] = int(m.group(1)) if m else None
    res['tests_failed'] = int(f.group(1)) if f else 0
    res['tests_tail'] = out.strip().splitlines()[-1:]
    rc, out = sh('/venv/bin/python %s' % demo, wt, 600)
    res['demo_with_change'] = rc
    res['demo_with_change_tail'] = out.strip().splitlines()[-2:]
    sh('git checkout -- .', wt)
    rc, out = sh('/venv/bin/python %s' % demo, wt, 600)
    res['demo_without_change'] = rc
    if '--no-repo' in sys.argv:
        print(json.dumps(res, indent=1))
        return 0
    return repo_part(res, patch)


def repo_part(res, patch):
    # checks against /repo
    rc, out = sh('git -C /repo status --porcelain --untracked-files=no')
    if out.strip():
        res['error'] = '/repo not clean'
        print(json.dumps(res, indent=1))
        return 1
    rc, out = sh('git -C /repo apply %s' % patch)
    res['apply_repo'] = rc
    try:
        rc, out = sh('/venv/bin/python sa/run.py --all',
                     os.path.dirname(os.path.dirname(
                         os.path.abspath(__file__))))
    finally:
        sh('git -C /repo checkout -- .')
    viol = re.findall(r'VIOLATION property=(C\d+)', out)
    errs = re.findall(r'ANALYSIS-ERROR property=(C\d+)', out)
    res['violations'] = viol
    res['analysis_errors'] = errs
    res['violated_lines'] = [l.strip()[:260] for l in out.splitlines()
                             if l.startswith('  violated')][:8]
    print(json.dumps(res, indent=1))
    return 0


if __name__ == '__main__':
    sys.exit(main())
