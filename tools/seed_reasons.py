#!/venv/bin/python
"""For every stored seeded change list the own-property reports whose text
says that something was *not found* (never created / never called / not
recognised ...): candidates for "reported for the wrong reason" - the model
lost track of the changed code.  The repaired form of such a change should be
written as a twin (twins/M*) and must be silent."""
import json, os, re, shutil, subprocess, sys, tempfile
from concurrent.futures import ProcessPoolExecutor
VERIF = os.path.dirname(os.path.dirname(os.path.abspath(__file__)))
sys.path.insert(0, VERIF)
PAT = re.compile(r'never (created|written|called|read|compared)|not found|'
                 r'not recogni|is never|no .{0,40} found|does not (call|'
                 r'write|create)|neither binds', re.I)


def one(sid):
    from sa.selftest import make_copy
    from sa.source import Repo
    from sa.run import run_property
    d = os.path.join(VERIF, 'seeded', sid)
    tmp = tempfile.mkdtemp(prefix='verif_seed_')
    try:
        make_copy(tmp)
        p = subprocess.run(['git', 'apply', '--include=biom/*',
                            os.path.join(d, 'patch.diff')], cwd=tmp,
                           capture_output=True, text=True)
        if p.returncode:
            return sid, ['apply error']
        prop = sid.split('-')[0]
        code, col, new = run_property(prop, quiet=True, evidence=False,
                                      repo=Repo(tmp))
        out = []
        for o in new:
            msg = o.why or ''
            if PAT.search(str(msg)):
                out.append('%s@%s [%s] %s' % (o.rule, o.func, o.role,
                                              str(msg)[:140]))
        return sid, (out, len(new))
    finally:
        shutil.rmtree(tmp, ignore_errors=True)


if __name__ == '__main__':
    ids = sys.argv[1:] or sorted(
        d for d in os.listdir(os.path.join(VERIF, 'seeded'))
        if os.path.isdir(os.path.join(VERIF, 'seeded', d)))
    with ProcessPoolExecutor(max_workers=16) as ex:
        for sid, res in ex.map(one, ids):
            if isinstance(res, tuple) and res[0] and len(res[0]) == res[1]:
                # every report of the own property is of the "not found" kind
                print(sid)
                for l in res[0]:
                    print('    ', l)
