#!/venv/bin/python
"""Mechanical behaviour-preserving rewrites used as stress twins.
usage: mech_twins.py <mode> <file>...
modes:
  ifexp2if   `x = a if c else b`  ->  if c: x = a  else: x = b
  if2ifexp   if c: x = a  else: x = b  ->  x = a if c else b   (simple names,
             side-effect-free single assignments only)
  ctorkw     Table(...) / self.__class__(...) / cls(...) positional
             arguments -> keywords (constructor parameter names)
"""
import ast, sys

CTOR = ['data', 'observation_ids', 'sample_ids', 'observation_metadata',
        'sample_metadata', 'table_id', 'type', 'create_date', 'generated_by',
        'observation_group_metadata', 'sample_group_metadata']


class IfExp2If(ast.NodeTransformer):
    n = 0

    def visit_Assign(self, node):
        self.generic_visit(node)
        if isinstance(node.value, ast.IfExp) and len(node.targets) == 1 and \
                isinstance(node.targets[0], (ast.Name, ast.Attribute)):
            self.n += 1
            t = node.targets[0]
            return ast.If(test=node.value.test,
                          body=[ast.Assign(targets=[t],
                                           value=node.value.body)],
                          orelse=[ast.Assign(targets=[t],
                                             value=node.value.orelse)])
        return node


class If2IfExp(ast.NodeTransformer):
    n = 0

    def visit_If(self, node):
        self.generic_visit(node)
        if len(node.body) == 1 and len(node.orelse) == 1 and all(
                isinstance(s, ast.Assign) and len(s.targets) == 1 and
                isinstance(s.targets[0], ast.Name)
                for s in (node.body[0], node.orelse[0])) and \
                node.body[0].targets[0].id == node.orelse[0].targets[0].id:
            self.n += 1
            return ast.Assign(targets=[node.body[0].targets[0]],
                              value=ast.IfExp(test=node.test,
                                              body=node.body[0].value,
                                              orelse=node.orelse[0].value))
        return node


class CtorKw(ast.NodeTransformer):
    n = 0

    def visit_Call(self, node):
        self.generic_visit(node)
        f = node.func
        name = f.id if isinstance(f, ast.Name) else (
            f.attr if isinstance(f, ast.Attribute) else None)
        is_ctor = (isinstance(f, ast.Name) and f.id in ('Table', 'cls')) or \
            (isinstance(f, ast.Attribute) and f.attr == '__class__')
        if is_ctor and len(node.args) > 1 and not any(
                isinstance(a, ast.Starred) for a in node.args) and \
                len(node.args) <= len(CTOR):
            keep, extra = node.args[:1], node.args[1:]
            have = {k.arg for k in node.keywords}
            names = CTOR[1:1 + len(extra)]
            if not (set(names) & have):
                node.args = keep
                node.keywords = [ast.keyword(arg=n_, value=v)
                                 for n_, v in zip(names, extra)] + \
                    node.keywords
                self.n += 1
        return node


def main():
    mode = sys.argv[1]
    T = {'ifexp2if': IfExp2If, 'if2ifexp': If2IfExp, 'ctorkw': CtorKw}[mode]
    for path in sys.argv[2:]:
        tree = ast.parse(open(path).read())
        t = T()
        tree = t.visit(tree)
        ast.fix_missing_locations(tree)
        open(path, 'w').write(ast.unparse(tree) + '\n')
        print(path, t.n, 'rewrites')


if __name__ == '__main__':
    main()
