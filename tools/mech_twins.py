#!/venv/bin/python
"""Mechanical behaviour-preserving rewrites used as stress twins.
usage: mech_twins.py <mode> <file>...
modes:
  ifexp2if   `x = a if c else b`  ->  if c: x = a  else: x = b
  if2ifexp   if c: x = a  else: x = b  ->  x = a if c else b   (simple names,
             side-effect-free single assignments only)
  ctorkw     Table(...) / self.__class__(...) / cls(...) positional
             arguments -> keywords (constructor parameter names)
"""
import ast, sys

CTOR = ['data', 'observation_ids', 'sample_ids', 'observation_metadata',
        'sample_metadata', 'table_id', 'type', 'create_date', 'generated_by',
        'observation_group_metadata', 'sample_group_metadata']


class IfExp2If(ast.NodeTransformer):
    n = 0

    def visit_Assign(self, node):
        self.generic_visit(node)
        if isinstance(node.value, ast.IfExp) and len(node.targets) == 1 and \
                isinstance(node.targets[0], (ast.Name, ast.Attribute)):
            self.n += 1
            t = node.targets[0]
            return ast.If(test=node.value.test,
                          body=[ast.Assign(targets=[t],
                                           value=node.value.body)],
                          orelse=[ast.Assign(targets=[t],
                                             value=node.value.orelse)])
        return node


class If2IfExp(ast.NodeTransformer):
    n = 0

    def visit_If(self, node):
        self.generic_visit(node)
        if len(node.body) == 1 and len(node.orelse) == 1 and all(
                isinstance(s, ast.Assign) and len(s.targets) == 1 and
                isinstance(s.targets[0], ast.Name)
                for s in (node.body[0], node.orelse[0])) and \
                node.body[0].targets[0].id == node.orelse[0].targets[0].id:
            self.n += 1
            return ast.Assign(targets=[node.body[0].targets[0]],
                              value=ast.IfExp(test=node.test,
                                              body=node.body[0].value,
                                              orelse=node.orelse[0].value))
        return node


class CtorKw(ast.NodeTransformer):
    n = 0

    def visit_Call(self, node):
        self.generic_visit(node)
        f = node.func
        name = f.id if isinstance(f, ast.Name) else (
            f.attr if isinstance(f, ast.Attribute) else None)
        is_ctor = (isinstance(f, ast.Name) and f.id in ('Table', 'cls')) or \
            (isinstance(f, ast.Attribute) and f.attr == '__class__')
        if is_ctor and len(node.args) > 1 and not any(
                isinstance(a, ast.Starred) for a in node.args) and \
                len(node.args) <= len(CTOR):
            keep, extra = node.args[:1], node.args[1:]
            have = {k.arg for k in node.keywords}
            names = CTOR[1:1 + len(extra)]
            if not (set(names) & have):
                node.args = keep
                node.keywords = [ast.keyword(arg=n_, value=v)
                                 for n_, v in zip(names, extra)] + \
                    node.keywords
                self.n += 1
        return node


def main():
    mode = sys.argv[1]
    T = {'ifexp2if': IfExp2If, 'if2ifexp': If2IfExp, 'ctorkw': CtorKw}[mode]
    for path in sys.argv[2:]:
        tree = ast.parse(open(path).read())
        t = T()
        tree = t.visit(tree)
        ast.fix_missing_locations(tree)
        open(path, 'w').write(ast.unparse(tree) + '\n')
        print(path, t.n, 'rewrites')




# --- more modes (appended) ---------------------------------------------------
class MethKw(ast.NodeTransformer):
    """positional arguments of calls of Table methods on self / table-named
    receivers -> keyword arguments (names from the method's signature)."""
    n = 0

    def __init__(self, sigs):
        self.sigs = sigs

    def visit_Call(self, node):
        self.generic_visit(node)
        f = node.func
        if isinstance(f, ast.Attribute) and isinstance(f.value, ast.Name) \
                and f.value.id in ('self', 'table', 't', 'other', 'tab',
                                   'result', 'tmp_table') and \
                f.attr in self.sigs and node.args and not any(
                isinstance(a, ast.Starred) for a in node.args):
            params = self.sigs[f.attr]
            if params is None or len(node.args) > len(params):
                return node
            have = {k.arg for k in node.keywords}
            names = params[:len(node.args)]
            if set(names) & have or any(k.arg is None
                                        for k in node.keywords):
                return node
            # keep the first argument positional when it is the only one
            # (callbacks etc. read better) - convert from the second on
            keep = 1 if len(node.args) > 1 else 0
            if len(node.args) == 1 and names[0] == 'axis':
                keep = 0
            new_kw = [ast.keyword(arg=n_, value=v)
                      for n_, v in zip(names[keep:], node.args[keep:])]
            if new_kw:
                node.args = node.args[:keep]
                node.keywords = new_kw + node.keywords
                self.n += 1
        return node


class SwapBranches(ast.NodeTransformer):
    """`if c: A else: B` -> `if not c: B else: A` for plain if/else (no
    elif); `not (not c)` is not produced: a leading `not` is dropped."""
    n = 0

    def visit_If(self, node):
        self.generic_visit(node)
        if node.orelse and not (len(node.orelse) == 1 and isinstance(
                node.orelse[0], ast.If)):
            t = node.test
            if isinstance(t, ast.UnaryOp) and isinstance(t.op, ast.Not):
                nt = t.operand
            else:
                nt = ast.UnaryOp(op=ast.Not(), operand=t)
            self.n += 1
            return ast.If(test=nt, body=node.orelse, orelse=node.body)
        return node


def table_sigs(path):
    tree = ast.parse(open(path).read())
    sigs = {}
    for c in tree.body:
        if isinstance(c, ast.ClassDef) and c.name == 'Table':
            for m in c.body:
                if isinstance(m, ast.FunctionDef):
                    a = m.args
                    if a.vararg or a.posonlyargs:
                        sigs[m.name] = None
                        continue
                    ps = [x.arg for x in a.args]
                    if ps and ps[0] in ('self', 'cls'):
                        ps = ps[1:]
                    sigs[m.name] = ps
    return sigs


def main2():
    mode = sys.argv[1]
    if mode == 'methkw':
        sigs = table_sigs([p for p in sys.argv[2:]
                           if p.endswith('table.py')][0])
        make = lambda: MethKw(sigs)
    elif mode == 'swap':
        make = SwapBranches
    else:
        return main()
    for path in sys.argv[2:]:
        tree = ast.parse(open(path).read())
        t = make()
        tree = t.visit(tree)
        ast.fix_missing_locations(tree)
        open(path, 'w').write(ast.unparse(tree) + '\n')
        print(path, t.n, 'rewrites')


# --- third batch -------------------------------------------------------------
import re as _re


class Fmt2FString(ast.NodeTransformer):
    """'..%s..%d..' % (a, b)  ->  f'..{a}..{b:d}..'   (tuple-literal right
    operands with plain %s / %d / %r / %f specs only)"""
    n = 0

    def visit_BinOp(self, node):
        self.generic_visit(node)
        if isinstance(node.op, ast.Mod) and isinstance(
                node.left, ast.Constant) and isinstance(
                node.left.value, str) and isinstance(node.right, ast.Tuple):
            tmpl = node.left.value
            specs = _re.findall(r'%(%|[sdr])', tmpl)
            if '%' in _re.sub(r'%(%|[sdr])', '', tmpl):
                return node
            real = [s for s in specs if s != '%']
            if len(real) != len(node.right.elts) or any(
                    isinstance(e, ast.Starred) for e in node.right.elts):
                return node
            parts = _re.split(r'(%(?:%|[sdr]))', tmpl)
            values = []
            it = iter(node.right.elts)
            for p in parts:
                if p == '%%':
                    values.append(ast.Constant('%'))
                elif p in ('%s', '%d', '%r'):
                    e = next(it)
                    if p == '%d':
                        return node     # %d truncates floats, {:d} raises
                    values.append(ast.FormattedValue(
                        value=e, conversion=114 if p == '%r' else -1,
                        format_spec=None))
                elif p:
                    values.append(ast.Constant(p))
            self.n += 1
            return ast.JoinedStr(values=values)
        return node


class InlineTemps(ast.NodeTransformer):
    """x = <expr>; <stmt using x exactly once> (x used nowhere else in the
    function) -> the use replaced by the expression."""
    n = 0

    def visit_FunctionDef(self, node):
        self.generic_visit(node)
        uses = {}
        stores = {}
        for x in ast.walk(node):
            if isinstance(x, ast.Name):
                d = stores if isinstance(x.ctx, (ast.Store, ast.Del)) \
                    else uses
                d[x.id] = d.get(x.id, 0) + 1
        params = {a.arg for a in node.args.args + node.args.kwonlyargs}

        def rewrite(body):
            i = 0
            while i + 1 < len(body):
                a, b = body[i], body[i + 1]
                if isinstance(a, ast.Assign) and len(a.targets) == 1 and \
                        isinstance(a.targets[0], ast.Name):
                    nm = a.targets[0].id
                    if nm not in params and stores.get(nm) == 1 and \
                            uses.get(nm) == 1 and not isinstance(
                            b, (ast.For, ast.While, ast.If, ast.With,
                                ast.Try, ast.FunctionDef)) and not isinstance(
                            a.value, (ast.Lambda, ast.Yield, ast.Await,
                                      ast.GeneratorExp)):
                        hits = [x for x in ast.walk(b) if isinstance(
                            x, ast.Name) and x.id == nm and isinstance(
                            x.ctx, ast.Load)]
                        inner = any(isinstance(x, (
                            ast.Lambda, ast.ListComp, ast.SetComp,
                            ast.DictComp, ast.GeneratorExp))
                            for x in ast.walk(b))
                        # only when the use is the first thing evaluated:
                        # the value of a plain assignment / return / call arg
                        first = None
                        if isinstance(b, (ast.Assign, ast.Return, ast.Expr)):
                            v = b.value
                            if isinstance(v, ast.Name):
                                first = v
                            elif isinstance(v, ast.Call) and v.args and \
                                    isinstance(v.func, (ast.Name,)) and \
                                    isinstance(v.args[0], ast.Name):
                                first = v.args[0]
                            elif isinstance(v, ast.Call) and isinstance(
                                    v.func, ast.Attribute) and isinstance(
                                    v.func.value, ast.Name) and \
                                    v.func.value.id == nm:
                                first = v.func.value
                        if len(hits) == 1 and not inner and \
                                first is hits[0]:
                            class R(ast.NodeTransformer):
                                def visit_Name(s_, x):
                                    if x is hits[0]:
                                        return a.value
                                    return x
                            body[i + 1] = R().visit(b)
                            del body[i]
                            self.n += 1
                            continue
                i += 1
            for st in body:
                for fld in ('body', 'orelse', 'finalbody'):
                    blk = getattr(st, fld, None)
                    if isinstance(blk, list) and blk and isinstance(
                            blk[0], ast.stmt) and not isinstance(
                            st, (ast.FunctionDef, ast.ClassDef)):
                        rewrite(blk)
                for h in getattr(st, 'handlers', []) or []:
                    rewrite(h.body)
        rewrite(node.body)
        return node


_main2 = main2


def main3():
    mode = sys.argv[1]
    T = {'fstring': Fmt2FString, 'inline': InlineTemps}.get(mode)
    if T is None:
        return _main2()
    for path in sys.argv[2:]:
        tree = ast.parse(open(path).read())
        t = T()
        tree = t.visit(tree)
        ast.fix_missing_locations(tree)
        open(path, 'w').write(ast.unparse(tree) + '\n')
        print(path, t.n, 'rewrites')


class ReturnTemp(ast.NodeTransformer):
    """return <non-trivial expr>  ->  result_ = <expr>; return result_
    (not in generators / lambdas)"""
    n = 0

    def visit_FunctionDef(self, node):
        self.generic_visit(node)
        if any(isinstance(x, (ast.Yield, ast.YieldFrom))
               for x in ast.walk(node)):
            return node
        names = {x.id for x in ast.walk(node) if isinstance(x, ast.Name)}
        tmp = 'result_'
        while tmp in names:
            tmp += '_'
        outer = self

        def rewrite(body):
            out = []
            for st in body:
                if isinstance(st, ast.Return) and st.value is not None and \
                        not isinstance(st.value, (ast.Name, ast.Constant)):
                    out.append(ast.Assign(
                        targets=[ast.Name(id=tmp, ctx=ast.Store())],
                        value=st.value))
                    out.append(ast.Return(value=ast.Name(id=tmp,
                                                         ctx=ast.Load())))
                    outer.n += 1
                    continue
                if not isinstance(st, (ast.FunctionDef, ast.ClassDef)):
                    for fld in ('body', 'orelse', 'finalbody'):
                        blk = getattr(st, fld, None)
                        if isinstance(blk, list) and blk and isinstance(
                                blk[0], ast.stmt):
                            setattr(st, fld, rewrite(blk))
                    for h in getattr(st, 'handlers', []) or []:
                        h.body = rewrite(h.body)
                out.append(st)
            return out
        node.body = rewrite(node.body)
        return node


_main3 = main3


def main4():
    if sys.argv[1] != 'rettemp':
        return _main3()
    for path in sys.argv[2:]:
        tree = ast.parse(open(path).read())
        t = ReturnTemp()
        tree = t.visit(tree)
        ast.fix_missing_locations(tree)
        open(path, 'w').write(ast.unparse(tree) + '\n')
        print(path, t.n, 'rewrites')


class ReorderDefs(ast.NodeTransformer):
    """reverse every maximal run of consecutive undecorated function
    definitions in a class body / module body"""
    n = 0

    def _reorder(self, body):
        out, run = [], []

        def flush():
            if len(run) > 1:
                self.n += 1
            out.extend(reversed(run))
            del run[:]
        for st in body:
            if isinstance(st, ast.FunctionDef) and not st.decorator_list:
                run.append(st)
            else:
                flush()
                out.append(st)
        flush()
        return out

    def visit_ClassDef(self, node):
        self.generic_visit(node)
        node.body = self._reorder(node.body)
        return node

    def visit_Module(self, node):
        self.generic_visit(node)
        node.body = self._reorder(node.body)
        return node


_main4 = main4


def main5():
    if sys.argv[1] != 'reorder':
        return _main4()
    for path in sys.argv[2:]:
        tree = ast.parse(open(path).read())
        t = ReorderDefs()
        tree = t.visit(tree)
        ast.fix_missing_locations(tree)
        open(path, 'w').write(ast.unparse(tree) + '\n')
        print(path, t.n, 'rewrites')


class FlipCompare(ast.NodeTransformer):
    """if a != b: A else: B -> if a == b: B else: A  (also `is not`,
    `not in`, and the reverse direction for ==/is/in) for if/else with a
    single comparison against a constant / None or a membership test."""
    n = 0
    NEG = {ast.Eq: ast.NotEq, ast.NotEq: ast.Eq, ast.Is: ast.IsNot,
           ast.IsNot: ast.Is, ast.In: ast.NotIn, ast.NotIn: ast.In}

    def visit_If(self, node):
        self.generic_visit(node)
        t = node.test
        if node.orelse and isinstance(t, ast.Compare) and len(t.ops) == 1 \
                and type(t.ops[0]) in self.NEG and (
                    isinstance(t.ops[0], (ast.In, ast.NotIn, ast.Is,
                                          ast.IsNot)) or
                    isinstance(t.comparators[0], ast.Constant)):
            self.n += 1
            return ast.If(test=ast.Compare(
                left=t.left, ops=[self.NEG[type(t.ops[0])]()],
                comparators=t.comparators), body=node.orelse,
                orelse=node.body)
        return node


_main5 = main5


def main6():
    if sys.argv[1] != 'flip':
        return _main5()
    for path in sys.argv[2:]:
        tree = ast.parse(open(path).read())
        t = FlipCompare()
        tree = t.visit(tree)
        ast.fix_missing_locations(tree)
        open(path, 'w').write(ast.unparse(tree) + '\n')
        print(path, t.n, 'rewrites')


if __name__ == '__main__':
    main6()
