#!/venv/bin/python
"""Mechanical behaviour-preserving rewrites used as stress twins.
usage: mech_twins.py <mode> <file>...
modes:
  ifexp2if   `x = a if c else b`  ->  if c: x = a  else: x = b
  if2ifexp   if c: x = a  else: x = b  ->  x = a if c else b   (simple names,
             side-effect-free single assignments only)
  ctorkw     Table(...) / self.__class__(...) / cls(...) positional
             arguments -> keywords (constructor parameter names)
"""
import ast, sys

CTOR = ['data', 'observation_ids', 'sample_ids', 'observation_metadata',
        'sample_metadata', 'table_id', 'type', 'create_date', 'generated_by',
        'observation_group_metadata', 'sample_group_metadata']


class IfExp2If(ast.NodeTransformer):
    n = 0

    def visit_Assign(self, node):
        self.generic_visit(node)
        if isinstance(node.value, ast.IfExp) and len(node.targets) == 1 and \
                isinstance(node.targets[0], (ast.Name, ast.Attribute)):
            self.n += 1
            t = node.targets[0]
            return ast.If(test=node.value.test,
                          body=[ast.Assign(targets=[t],
                                           value=node.value.body)],
                          orelse=[ast.Assign(targets=[t],
                                             value=node.value.orelse)])
        return node


class If2IfExp(ast.NodeTransformer):
    n = 0

    def visit_If(self, node):
        self.generic_visit(node)
        if len(node.body) == 1 and len(node.orelse) == 1 and all(
                isinstance(s, ast.Assign) and len(s.targets) == 1 and
                isinstance(s.targets[0], ast.Name)
                for s in (node.body[0], node.orelse[0])) and \
                node.body[0].targets[0].id == node.orelse[0].targets[0].id:
            self.n += 1
            return ast.Assign(targets=[node.body[0].targets[0]],
                              value=ast.IfExp(test=node.test,
                                              body=node.body[0].value,
                                              orelse=node.orelse[0].value))
        return node


class CtorKw(ast.NodeTransformer):
    n = 0

    def visit_Call(self, node):
        self.generic_visit(node)
        f = node.func
        name = f.id if isinstance(f, ast.Name) else (
            f.attr if isinstance(f, ast.Attribute) else None)
        is_ctor = (isinstance(f, ast.Name) and f.id in ('Table', 'cls')) or \
            (isinstance(f, ast.Attribute) and f.attr == '__class__')
        if is_ctor and len(node.args) > 1 and not any(
                isinstance(a, ast.Starred) for a in node.args) and \
                len(node.args) <= len(CTOR):
            keep, extra = node.args[:1], node.args[1:]
            have = {k.arg for k in node.keywords}
            names = CTOR[1:1 + len(extra)]
            if not (set(names) & have):
                node.args = keep
                node.keywords = [ast.keyword(arg=n_, value=v)
                                 for n_, v in zip(names, extra)] + \
                    node.keywords
                self.n += 1
        return node


def main():
    mode = sys.argv[1]
    T = {'ifexp2if': IfExp2If, 'if2ifexp': If2IfExp, 'ctorkw': CtorKw}[mode]
    for path in sys.argv[2:]:
        tree = ast.parse(open(path).read())
        t = T()
        tree = t.visit(tree)
        ast.fix_missing_locations(tree)
        open(path, 'w').write(ast.unparse(tree) + '\n')
        print(path, t.n, 'rewrites')




# --- more modes (appended) ---------------------------------------------------
class MethKw(ast.NodeTransformer):
    """positional arguments of calls of Table methods on self / table-named
    receivers -> keyword arguments (names from the method's signature)."""
    n = 0

    def __init__(self, sigs):
        self.sigs = sigs

    def visit_Call(self, node):
        self.generic_visit(node)
        f = node.func
        if isinstance(f, ast.Attribute) and isinstance(f.value, ast.Name) \
                and f.value.id in ('self', 'table', 't', 'other', 'tab',
                                   'result', 'tmp_table') and \
                f.attr in self.sigs and node.args and not any(
                isinstance(a, ast.Starred) for a in node.args):
            params = self.sigs[f.attr]
            if params is None or len(node.args) > len(params):
                return node
            have = {k.arg for k in node.keywords}
            names = params[:len(node.args)]
            if set(names) & have or any(k.arg is None
                                        for k in node.keywords):
                return node
            # keep the first argument positional when it is the only one
            # (callbacks etc. read better) - convert from the second on
            keep = 1 if len(node.args) > 1 else 0
            if len(node.args) == 1 and names[0] == 'axis':
                keep = 0
            new_kw = [ast.keyword(arg=n_, value=v)
                      for n_, v in zip(names[keep:], node.args[keep:])]
            if new_kw:
                node.args = node.args[:keep]
                node.keywords = new_kw + node.keywords
                self.n += 1
        return node


class SwapBranches(ast.NodeTransformer):
    """`if c: A else: B` -> `if not c: B else: A` for plain if/else (no
    elif); `not (not c)` is not produced: a leading `not` is dropped."""
    n = 0

    def visit_If(self, node):
        self.generic_visit(node)
        if node.orelse and not (len(node.orelse) == 1 and isinstance(
                node.orelse[0], ast.If)):
            t = node.test
            if isinstance(t, ast.UnaryOp) and isinstance(t.op, ast.Not):
                nt = t.operand
            else:
                nt = ast.UnaryOp(op=ast.Not(), operand=t)
            self.n += 1
            return ast.If(test=nt, body=node.orelse, orelse=node.body)
        return node


def table_sigs(path):
    tree = ast.parse(open(path).read())
    sigs = {}
    for c in tree.body:
        if isinstance(c, ast.ClassDef) and c.name == 'Table':
            for m in c.body:
                if isinstance(m, ast.FunctionDef):
                    a = m.args
                    if a.vararg or a.posonlyargs:
                        sigs[m.name] = None
                        continue
                    ps = [x.arg for x in a.args]
                    if ps and ps[0] in ('self', 'cls'):
                        ps = ps[1:]
                    sigs[m.name] = ps
    return sigs


def main2():
    mode = sys.argv[1]
    if mode == 'methkw':
        sigs = table_sigs([p for p in sys.argv[2:]
                           if p.endswith('table.py')][0])
        make = lambda: MethKw(sigs)
    elif mode == 'swap':
        make = SwapBranches
    else:
        return main()
    for path in sys.argv[2:]:
        tree = ast.parse(open(path).read())
        t = make()
        tree = t.visit(tree)
        ast.fix_missing_locations(tree)
        open(path, 'w').write(ast.unparse(tree) + '\n')
        print(path, t.n, 'rewrites')


if __name__ == '__main__':
    main2()
