#!/venv/bin/python
"""Print the markdown table 'seeded change -> reporting checks' from
seeded/index.json (written by tools/seed_check.py)."""
import json, os, re
VERIF = os.path.dirname(os.path.dirname(os.path.abspath(__file__)))
idx = json.load(open(os.path.join(VERIF, 'seeded', 'index.json')))
first = json.load(open(os.path.join(VERIF, 'seeded', 'FIRST_RUN.json')))
fr = set()
for k, v in first.items():
    if k.endswith('first_run_reported') and isinstance(v, list):
        fr.update(v)
print('| seed | change | reported by (own property) | also reported by | first run |')
print('|---|---|---|---|---|')
for sid in sorted(idx):
    d = os.path.join(VERIF, 'seeded', sid)
    if not os.path.isdir(d):
        continue
    note = open(os.path.join(d, 'note.md')).read().strip().split('\n')
    title = re.sub(r'^#+\s*', '', note[0])
    title = re.sub(r'^(Change|change)\s+[A-P]\s*[-:(—]*\s*', '', title)
    title = re.sub(r'^C\d\d\s+change\s+[A-P]\s*[-:]*\s*', '', title)[:110]
    prop = sid.split('-')[0]
    own = ', '.join(idx[sid].get(prop, [])) or '**not reported**'
    oth = '; '.join('%s: %s' % (p, ', '.join(sorted({x.split('@')[0]
                                                    for x in v})))
                    for p, v in sorted(idx[sid].items()) if p != prop)
    rnd = {'A': 1, 'B': 1, 'C': 2, 'D': 2, 'E': 3, 'F': 3, 'G': 4, 'H': 4, 'I': 5, 'J': 5, 'K': 6, 'L': 6, 'M': 7, 'N': 7, 'O': 8, 'P': 8, 'Q': 9, 'R': 9, 'S': 10, 'T': 10}[sid[-1]]
    f = 'yes' if sid in fr else ('n/a' if rnd == 1 else 'no')
    print('| %s | %s | %s | %s | %s |' % (sid, title.replace('|', '/'), own,
                                          oth or '-', f))
