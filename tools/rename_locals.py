#!/venv/bin/python
"""Mechanical behaviour-preserving twin generator: rename every local
variable (not parameters, not globals) of every function in the given files
by appending a suffix.  Scope-aware (closures, comprehensions, lambdas).
usage: rename_locals.py <suffix> <file>...   (rewrites the files in place)"""
import ast, sys


class Scope:
    def __init__(self, kind, params=(), parent=None):
        self.kind, self.parent = kind, parent
        self.params = set(params)
        self.locals = set()
        self.norename = set()


def stored_names(node, stop):
    """Names bound directly in `node`'s own scope."""
    out, nor = set(), set()

    def rec(n, top=True):
        for c in ast.iter_child_nodes(n):
            if isinstance(c, stop):
                if isinstance(c, (ast.FunctionDef, ast.AsyncFunctionDef,
                                  ast.ClassDef)):
                    nor.add(c.name)
                    for d in c.decorator_list:
                        rec(d)
                    if not isinstance(c, ast.ClassDef):
                        for d in c.args.defaults + [
                                x for x in c.args.kw_defaults if x]:
                            rec(d)
                elif isinstance(c, ast.Lambda):
                    for d in c.args.defaults:
                        rec(d)
                else:       # comprehension: first iter belongs to us
                    rec(c.generators[0].iter) if False else None
                continue
            if isinstance(c, ast.Name) and isinstance(
                    c.ctx, (ast.Store, ast.Del)):
                out.add(c.id)
            elif isinstance(c, ast.ExceptHandler) and c.name:
                out.add(c.name)
            elif isinstance(c, (ast.Import, ast.ImportFrom)):
                for al in c.names:
                    nor.add((al.asname or al.name).split('.')[0])
            elif isinstance(c, (ast.Global, ast.Nonlocal)):
                nor.update(c.names)
            rec(c)
    rec(node)
    return out, nor


STOP = (ast.FunctionDef, ast.AsyncFunctionDef, ast.ClassDef, ast.Lambda,
        ast.ListComp, ast.SetComp, ast.DictComp, ast.GeneratorExp)


class Renamer:
    def __init__(self, suffix):
        self.suffix = suffix
        self.count = 0

    def params_of(self, args):
        ps = [a.arg for a in args.posonlyargs + args.args + args.kwonlyargs]
        if args.vararg:
            ps.append(args.vararg.arg)
        if args.kwarg:
            ps.append(args.kwarg.arg)
        return ps

    def resolve(self, name, scope):
        s = scope
        while s is not None:
            if s.kind != 'class':
                if name in s.params or name in s.norename:
                    return None
                if name in s.locals:
                    return s
            s = s.parent
        return None

    def visit(self, node, scope):
        if isinstance(node, (ast.FunctionDef, ast.AsyncFunctionDef)):
            for d in node.decorator_list:
                self.visit(d, scope)
            for d in node.args.defaults + [x for x in node.args.kw_defaults
                                           if x]:
                self.visit(d, scope)
            s = Scope('func', self.params_of(node.args), scope)
            s.locals, s.norename = stored_names(node, STOP)
            s.locals -= s.params | s.norename
            for st in node.body:
                self.visit(st, s)
            return
        if isinstance(node, ast.Lambda):
            for d in node.args.defaults:
                self.visit(d, scope)
            s = Scope('func', self.params_of(node.args), scope)
            self.visit(node.body, s)
            return
        if isinstance(node, ast.ClassDef):
            for d in node.decorator_list + node.bases:
                self.visit(d, scope)
            s = Scope('class', (), scope)
            for st in node.body:
                self.visit(st, s)
            return
        if isinstance(node, (ast.ListComp, ast.SetComp, ast.DictComp,
                             ast.GeneratorExp)):
            s = Scope('func', (), scope)
            for g in node.generators:
                for x in ast.walk(g.target):
                    if isinstance(x, ast.Name):
                        s.locals.add(x.id)
            # first iterable is evaluated in the enclosing scope
            self.visit(node.generators[0].iter, scope)
            for i, g in enumerate(node.generators):
                self.visit(g.target, s)
                if i:
                    self.visit(g.iter, s)
                for c in g.ifs:
                    self.visit(c, s)
            if isinstance(node, ast.DictComp):
                self.visit(node.key, s)
                self.visit(node.value, s)
            else:
                self.visit(node.elt, s)
            return
        if isinstance(node, ast.Name):
            if scope is not None and scope.kind != 'module':
                if self.resolve(node.id, scope) is not None:
                    node.id = node.id + self.suffix
                    self.count += 1
            return
        if isinstance(node, ast.ExceptHandler) and node.name and \
                scope is not None and self.resolve(node.name, scope):
            node.name = node.name + self.suffix
        for c in ast.iter_child_nodes(node):
            self.visit(c, scope)


def main():
    suffix = sys.argv[1]
    for path in sys.argv[2:]:
        src = open(path).read()
        tree = ast.parse(src)
        r = Renamer(suffix)
        r.visit(tree, Scope('module'))
        open(path, 'w').write(ast.unparse(tree) + '\n')
        print(path, r.count, 'names renamed')


if __name__ == '__main__':
    main()
