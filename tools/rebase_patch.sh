#!/bin/bash
# usage: tools/rebase_patch.sh <patch.diff> [demo.py]
# Re-bases a stored patch onto /repo HEAD with fuzz, confirms the tests still
# pass (and, for a seeded change, that the demo fails with it and passes
# without), and overwrites the patch on success.
p=$(readlink -f "$1"); demo=${2:+$(readlink -f "$2")}
w=/tmp/w/port/rb_$$; rm -rf $w; git -C /repo worktree add -q --detach $w HEAD || exit 2
cd $w
if ! patch -p1 -F3 -s --no-backup-if-mismatch < "$p" > /tmp/w/port/rb.log 2>&1; then
  echo "FAILED-APPLY $p"; tail -2 /tmp/w/port/rb.log; cd /; git -C /repo worktree remove --force $w; exit 1; fi
rm -f biom/*.orig biom/*.rej biom/cli/*.orig biom/cli/*.rej
t=$(/venv/bin/python -m pytest -q -p no:cacheprovider --timeout=900 2>&1 | tail -1)
ok=1; case "$t" in *failed*) ok=0;; esac
if [ -n "$demo" ]; then cp "$demo" d_.py; /venv/bin/python d_.py >/dev/null 2>&1; a=$?; git diff > /tmp/w/port/rb.new; git checkout -q -- .; /venv/bin/python d_.py > /dev/null 2>&1; b=$?
  [ $a -ne 0 ] && [ $b -eq 0 ] || ok=0; echo "$p tests: $t demo with=$a without=$b"
else git diff > /tmp/w/port/rb.new; echo "$p tests: $t"; fi
cd /; git -C /repo worktree remove --force $w
if [ $ok -eq 1 ]; then cp /tmp/w/port/rb.new "$p"; echo "  re-based"; else echo "  NOT re-based"; fi
