#!/venv/bin/python
"""Run every quick check against every stored seeded change (on scratch
copies of /repo's analysable sources) and print which checks report it."""
import json, os, shutil, subprocess, sys, tempfile
from concurrent.futures import ProcessPoolExecutor
VERIF = os.path.dirname(os.path.dirname(os.path.abspath(__file__)))
sys.path.insert(0, VERIF)


def one(sid):
    from sa.selftest import make_copy
    from sa.source import Repo
    from sa.run import run_property
    from sa.props import PROPS
    d = os.path.join(VERIF, 'seeded', sid)
    tmp = tempfile.mkdtemp(prefix='verif_seed_')
    try:
        make_copy(tmp)
        p = subprocess.run(['git', 'apply', '--include=biom/*',
                            os.path.join(d, 'patch.diff')], cwd=tmp,
                           capture_output=True, text=True)
        if p.returncode:
            return sid, {'error': p.stderr[:200]}
        repo = Repo(tmp)
        out = {}
        for prop in sorted(PROPS):
            code, col, new = run_property(prop, quiet=True, evidence=False,
                                          repo=repo)
            if code == 1:
                out[prop] = sorted({'%s@%s' % (o.rule, o.func) for o in new})
            elif code == 2:
                out[prop] = ['ANALYSIS-ERROR']
        return sid, out
    finally:
        shutil.rmtree(tmp, ignore_errors=True)


if __name__ == '__main__':
    ids = sys.argv[1:] or sorted(d for d in os.listdir(os.path.join(VERIF, 'seeded')) if os.path.isdir(os.path.join(VERIF, 'seeded', d)))
    with ProcessPoolExecutor(max_workers=16) as ex:
        res = list(ex.map(one, ids))
    caught = 0
    for sid, out in res:
        target = sid.split('-')[0]
        hit = target in out and out[target] != ['ANALYSIS-ERROR']
        anyhit = any(v != ['ANALYSIS-ERROR'] for v in out.values())
        caught += bool(anyhit)
        print('%-7s %s %s' % (sid, 'CAUGHT' if hit else ('other ' if anyhit
                                                          else 'MISSED'),
                              json.dumps(out)[:230]))
    print('caught by some check: %d / %d' % (caught, len(res)))
    if not sys.argv[1:]:
        idx = {sid: {p: v for p, v in out.items()
                     if v != ['ANALYSIS-ERROR'] and p != 'error'}
               for sid, out in res}
        json.dump(idx, open(os.path.join(VERIF, 'seeded', 'index.json'),
                            'w'), indent=1, sort_keys=True)
