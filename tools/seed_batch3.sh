#!/bin/bash
# usage: tools/seed_batch3.sh <outdir> <letters> C01 C02 ...
# step 1 (parallel): confirm every candidate in its own scratch worktree
# step 2 (serial):   apply to /repo, run all checks, undo
out=$1; letters=$2; shift 2
mkdir -p /tmp/w/ev
for id in "$@"; do for x in $letters; do
 [ -f /tmp/mut/$id/$out/patch_$x.diff ] || continue
 echo "$id $x"
done; done > /tmp/w/ev/todo.txt
# one worker per worktree (changes of one worktree are confirmed in turn)
printf '%s\n' "$@" | xargs -P 8 -I{} bash -c 'for x in '"$letters"'; do [ -f /tmp/mut/{}/'$out'/patch_$x.diff ] || continue; /venv/bin/python /verif/tools/seed_eval.py /tmp/mut/{} /tmp/mut/{}/'$out'/patch_$x.diff /tmp/mut/{}/'$out'/demo_$x.py --no-repo > /tmp/w/ev/{}_$x.confirm 2>&1; done'
while read id x; do
 /venv/bin/python /verif/tools/seed_eval.py /tmp/mut/$id /tmp/mut/$id/$out/patch_$x.diff /tmp/mut/$id/$out/demo_$x.py --repo-only > /tmp/w/ev/${id}_$x.repo 2>&1
 /venv/bin/python - "$id" "$x" <<'PY'
import sys, json
id_, x = sys.argv[1:3]
def load(p):
    t = open(p).read()
    try:
        t = t[t.index('{'):]
        return json.loads(t[:t.rindex('}') + 1])
    except Exception:
        return {'error': t[-300:]}
c = load('/tmp/w/ev/%s_%s.confirm' % (id_, x)); r = load('/tmp/w/ev/%s_%s.repo' % (id_, x))
print(id_, x, 'tests', c.get('tests_passed'), c.get('tests_failed'), 'demo', c.get('demo_with_change'), c.get('demo_without_change'), 'VIOL', r.get('violations'), 'ERR', r.get('analysis_errors'), [l[:170] for l in r.get('violated_lines', [])[:2]], c.get('error', '') or r.get('error', ''))
PY
done < /tmp/w/ev/todo.txt
