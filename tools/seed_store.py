#!/venv/bin/python
"""Copy confirmed seeded changes from /tmp/mut/<prop>/out into
/verif/seeded/<prop>-<X>/ (patch.diff, demo.py, note.md, meta.json)."""
import json, os, re, shutil, subprocess, sys
VERIF = os.path.dirname(os.path.dirname(os.path.abspath(__file__)))
for prop in sys.argv[1:]:
    for x in 'ABCDEFGHIJKLMNOPQRST':
        src = '/tmp/mut/%s/%s' % (prop, 'out' if x in 'AB' else ('out2' if x in 'CD' else ('out3' if x in 'EF' else ('out4' if x in 'GH' else ('out5' if x in 'IJ' else ('out6' if x in 'KL' else ('out7' if x in 'MN' else ('out8' if x in 'OP' else ('out9' if x in 'QR' else 'out10')))))))))
        if not os.path.exists('%s/patch_%s.diff' % (src, x)):
            continue
        dst = os.path.join(VERIF, 'seeded', '%s-%s' % (prop, x))
        if os.path.exists(os.path.join(dst, 'patch.diff')):
            continue        # stored (and possibly re-based) already
        if os.path.isdir(os.path.join(VERIF, 'notes',
                                      'withdrawn-%s-%s' % (prop, x))):
            continue        # withdrawn: no longer breaks the property
        os.makedirs(dst, exist_ok=True)
        shutil.copy('%s/patch_%s.diff' % (src, x), dst + '/patch.diff')
        shutil.copy('%s/demo_%s.py' % (src, x), dst + '/demo.py')
        shutil.copy('%s/note_%s.md' % (src, x), dst + '/note.md')
        note = open(dst + '/note.md').read()
        meta = {
            'id': '%s-%s' % (prop, x), 'breaks_property': prop,
            'origin': 'independent sub-agent given only the property text '
                      'and a scratch worktree',
            'needs_to_manifest': note.strip().split('\n')[0:12],
            'confirmed_by_me': {
                'commands': [
                    'git -C <scratch worktree> apply patch.diff',
                    '/venv/bin/python -m pytest -q -p no:cacheprovider --timeout=900  (in the worktree)',
                    '/venv/bin/python demo.py  (in the worktree, with the change: must exit 1)',
                    'git checkout -- . ; /venv/bin/python demo.py  (must exit 0)',
                    'git -C /repo apply patch.diff ; /venv/bin/python sa/run.py --all ; git -C /repo checkout -- .'],
            },
        }
        json.dump(meta, open(dst + '/meta.json', 'w'), indent=1)
        print('stored', dst)
