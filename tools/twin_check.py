#!/venv/bin/python
"""Run every quick check on scratch copies with a behaviour-preserving
refactoring applied: any VIOLATION or ANALYSIS-ERROR is a checker defect."""
import json, os, shutil, subprocess, sys, tempfile
from concurrent.futures import ProcessPoolExecutor
VERIF = os.path.dirname(os.path.dirname(os.path.abspath(__file__)))
sys.path.insert(0, VERIF)


def one(patch):
    from sa.selftest import make_copy
    from sa.source import Repo
    from sa.run import run_property
    from sa.props import PROPS
    tmp = tempfile.mkdtemp(prefix='verif_twin_')
    try:
        make_copy(tmp)
        p = subprocess.run(['git', 'apply', '--include=biom/*', patch],
                           cwd=tmp, capture_output=True, text=True)
        if p.returncode:
            return patch, {'apply-error': p.stderr[:200]}
        repo = Repo(tmp)
        out = {}
        for prop in sorted(PROPS):
            code, col, new = run_property(prop, quiet=True, evidence=False,
                                          repo=repo)
            if code == 1:
                out[prop] = [repr(o)[:230] for o in new][:3]
            elif code == 2:
                import io, contextlib
                buf = io.StringIO()
                with contextlib.redirect_stdout(buf):
                    run_property(prop, quiet=False, evidence=False, repo=repo)
                out[prop] = ['ANALYSIS-ERROR ' + buf.getvalue()[:300]]
        return patch, out
    finally:
        shutil.rmtree(tmp, ignore_errors=True)


if __name__ == '__main__':
    patches = sys.argv[1:]
    with ProcessPoolExecutor(max_workers=16) as ex:
        res = list(ex.map(one, patches))
    bad = 0
    for patch, out in res:
        print('%s %s' % ('SILENT' if not out else 'NOISY ', patch))
        for k, v in out.items():
            bad += 1
            for line in (v if isinstance(v, list) else [v]):
                print('     ', k, line)
    print('noisy property/patch pairs: %d' % bad)
