#!/bin/bash
# usage: tools/seed_batch.sh C01 C02 ...   (evaluates out/patch_[AB].diff of each /tmp/mut/<id>)
for id in "$@"; do for x in A B; do
 [ -f /tmp/mut/$id/out/patch_$x.diff ] || continue
 /venv/bin/python /verif/tools/seed_eval.py /tmp/mut/$id /tmp/mut/$id/out/patch_$x.diff /tmp/mut/$id/out/demo_$x.py 2>&1 | /venv/bin/python -c "
import sys,json
t=sys.stdin.read(); t=t[t.index('{'):]
r=json.loads(t[:t.rindex('}')+1]); print('$id $x', 'tests',r.get('tests_passed'),r.get('tests_failed'),'demo',r.get('demo_with_change'),r.get('demo_without_change'),'VIOL',r.get('violations'),'ERR',r.get('analysis_errors'), [l[:150] for l in r.get('violated_lines',[])[:2]])"
done; done
